import GitSizer.Proofs.GraphRun5
/-! Whole-run theorem, part 6: for every valid delivery schedule the run succeeds, no record remains
    and every numeric field of the history is the clamp of the true census quantity. -/
namespace GitSizer.Graph
open GitSizer GitSizer.Spec Gen

theorem objSize32_eq (r : Repo) (i : Nat) (h : Repo.sizeOf r i < 2 ^ 64) : (objSize32 r i).toNat = clamp c32 (Repo.sizeOf r i) := by
  unfold objSize32 Repo.sizeOf at *
  cases ho : r.obj i with
  | none => simp [clamp]
  | some o =>
    rw [ho] at h
    cases o <;> simp only at h ⊢ <;> rw [Counts.newCount32_spec] <;> simp [BitVec.toNat_ofNat, Nat.mod_eq_of_lt h]

theorem blobSize32_eq (r : Repo) (o : Nat) (h : r.blobSize o < 2 ^ 64) : (blobSize32 r o).Size.toNat = r.blobSize o := by
  unfold blobSize32 NewCount64
  simp [BitVec.toNat_ofNat, Nat.mod_eq_of_lt h]

theorem parents32_eq (n : Nat) (h : n < 2 ^ 64) : (NewCount32 (BitVec.ofNat 64 n)).toNat = clamp c32 n := by
  rw [Counts.newCount32_spec]; simp [BitVec.toNat_ofNat, Nat.mod_eq_of_lt h]

theorem map_congr_mem {α β : Type} {f g : α → β} {l : List α} (h : ∀ x ∈ l, f x = g x) : l.map f = l.map g :=
  List.map_congr_left h

/-- the outcome of a run, in closed form over the delivered objects -/
structure RunResult (r : Repo) (h : HistorySize) (B T C G : List Nat) (nref : Nat) : Prop where
  blobs : blobNums h = [clamp c32 B.length, clamp c64 (B.map r.blobSize).sum, clamp c32 (maxList (B.map r.blobSize))]
  trees : treeNums h =
    [clamp c32 T.length,
     clamp c64 (T.map fun t => clamp c32 (Repo.sizeOf r t)).sum,
     clamp c64 (T.map fun t => clamp c32 (r.entries t).length).sum,
     clamp c32 (maxList (T.map fun t => (r.entries t).length)),
     clamp c32 (maxList (T.map fun t => (Agg.expand (PN r) t).depth)),
     clamp c32 (maxList (T.map fun t => (Agg.expand (PN r) t).len)),
     clamp c32 (maxList (T.map fun t => (Agg.expand (PN r) t).trees)),
     clamp c32 (maxList (T.map fun t => (Agg.expand (PN r) t).blobs)),
     clamp c64 (maxList (T.map fun t => (Agg.expand (PN r) t).bsize)),
     clamp c32 (maxList (T.map fun t => (Agg.expand (PN r) t).links)),
     clamp c32 (maxList (T.map fun t => (Agg.expand (PN r) t).subs))]
  commits : commitNums h =
    [clamp c32 C.length, clamp c64 (C.map fun c => clamp c32 (Repo.sizeOf r c)).sum,
     clamp c32 (maxList (C.map fun c => Repo.sizeOf r c)),
     clamp c32 (maxList (C.map fun c => depthN r c)),
     clamp c32 (maxList (C.map fun c => (r.parents c).length))]
  tags : tagNums h = [clamp c32 G.length, clamp c32 (maxList (G.map fun g => tagDepthN r g))]
  refs : refNums h = [clamp c32 nref]

theorem clamp_maxList_map {α : Type} (c : Nat) (f : α → Nat) (l : List α) :
    maxList (l.map fun x => clamp c (f x)) = clamp c (maxList (l.map f)) := by
  rw [clamp_maxList, List.map_map]; rfl

/-- **Whole-run theorem.** For every repository description and EVERY valid delivery schedule
    (blobs before the trees holding them; trees and tags each once in ANY order; a commit after the
    trees below its root tree and after its parents; references anywhere) covering tree- and
    tag-closed sets: the run does not panic, `HistorySize()` finds no remaining record, and all 22
    numeric fields are the clamps of the true counts, sums and maxima over the delivered objects —
    with the checkout maxima taken over the true recursive expansions. -/
theorem run_numbers (r : Repo) (ok : RepoOK r) (ops : List Op) (hv : ValidFrom r [] [] [] [] ops)
    (closedT : ∀ t ∈ treesOf ops, ∀ e ∈ treeKids r t, e.2 ∈ treesOf ops)
    (closedG : ∀ g ∈ tagsOf ops, ∀ e ∈ tagKids r g, e.2 ∈ tagsOf ops)
    (areTags : ∀ g ∈ tagsOf ops, (r.tagRef g).isSome)
    (sizes : ∀ i, Repo.sizeOf r i < 2 ^ 64) (nparents : ∀ c, (r.parents c).length < 2 ^ 64) :
    ∃ st, runOps r ops {} = .ok st ∧ historySize r st = .ok st.hist ∧
      RunResult r st.hist (blobsOf ops) (treesOf ops) (commitsOf ops) (tagsOf ops) (refsOf ops) := by
  obtain ⟨st, hrun, inv⟩ := run_valid r ok ops {} [] [] [] [] 0 (runInv_init r) hv
  simp only [List.nil_append, Nat.zero_add] at inv
  -- the aggregators at the end of the run
  have hKT := K_trees_le_fuel r (treesOf ops) inv.dT_nodup inv.dT_lt
  have hKG := K_tags_le_fuel r (tagsOf ops) inv.dG_nodup inv.dG_lt
  obtain ⟨tS, _, tR, tP⟩ := Agg.agg_correct (lawsB r) (show Agg.WFk (PB r) from ok.trees.wf) (treesOf ops) inv.dT_nodup closedT (fuelOf r) hKT
  obtain ⟨gS, _, gR, gP⟩ := Agg.agg_correct (lawsT r) (show Agg.WFk (PT r) from ok.tags) (tagsOf ops) inv.dG_nodup closedG (fuelOf r) hKG
  rw [← inv.trees_eq] at tR tP
  rw [← inv.tags_eq] at gR gP
  refine ⟨st, hrun, ?_, ?_⟩
  · unfold historySize
    have h1 : ((List.range r.length).any fun t => (st.trees.recs t).isSome) = false := by
      rw [List.any_eq_false]; intro t _; rw [tR t]; simp
    have h2 : ((List.range r.length).any fun t => (st.tags.recs t).isSome) = false := by
      rw [List.any_eq_false]; intro t _; rw [gR t]; simp
    simp [h1, h2]
  · refine ⟨?_, ?_, ?_, ?_, inv.hr⟩
    · -- blobs
      rw [inv.hb, zeros_clamped3, foldB_closed]
      simp only [Nat.zero_add, Nat.zero_max]
      have e1 : (blobsOf ops).map (fun o => (blobSize32 r o).Size.toNat) = (blobsOf ops).map r.blobSize :=
        map_congr_mem (fun o _ => blobSize32_eq r o (ok.trees.blobs o))
      have e2 : (blobsOf ops).map (fun o => clamp c32 ((blobSize32 r o).Size.toNat)) = (blobsOf ops).map (fun o => clamp c32 (r.blobSize o)) :=
        map_congr_mem (fun o _ => by rw [blobSize32_eq r o (ok.trees.blobs o)])
      rw [e1, e2, clamp_maxList_map]
    · -- trees
      rw [inv.ht, zeros_clamped11, foldT_closed]
      simp only [Nat.zero_add, Nat.zero_max]
      have hl : st.trees.fins.length = (treesOf ops).length := tP.length_eq
      have hperm : ∀ (f : Nat → Nat), (st.trees.fins.map f).sum = ((treesOf ops).map f).sum := fun f => (tP.map f).sum_nat
      have hmax : ∀ (f : Nat → Nat), maxList (st.trees.fins.map f) = maxList ((treesOf ops).map f) := fun f => maxList_perm (tP.map f)
      rw [hl, hperm, hperm, hmax, hmax, hmax, hmax, hmax, hmax, hmax, hmax]
      have es : (treesOf ops).map (fun t => (objSize32 r t).toNat) = (treesOf ops).map (fun t => clamp c32 (Repo.sizeOf r t)) :=
        map_congr_mem (fun t _ => objSize32_eq r t (sizes t))
      have ee : (treesOf ops).map (fun t => (entryCount32 (r.entries t).length).toNat) = (treesOf ops).map (fun t => clamp c32 (r.entries t).length) :=
        map_congr_mem (fun t _ => entryCount32_toNat _)
      have ex : ∀ t, toTN (Agg.expand (PB r) t) = clampN (Agg.expand (PN r) t) := expand_clamp r ok.trees
      rw [es, ee]
      simp only [ex, clampN, clamp_maxList_map]
    · -- commits
      rw [inv.hc, zeros_clamped5, foldC_closed]
      simp only [Nat.zero_add, Nat.zero_max]
      have es : (commitsOf ops).map (fun c => (objSize32 r c).toNat) = (commitsOf ops).map (fun c => clamp c32 (Repo.sizeOf r c)) :=
        map_congr_mem (fun c _ => objSize32_eq r c (sizes c))
      have ep : (commitsOf ops).map (fun c => (NewCount32 (BitVec.ofNat 64 (r.parents c).length)).toNat) =
          (commitsOf ops).map (fun c => clamp c32 (r.parents c).length) :=
        map_congr_mem (fun c _ => parents32_eq _ (nparents c))
      rw [es, ep]
      simp only [clamp_maxList_map]
    · -- tags
      rw [inv.hg, zeros_clamped2, foldG_closed]
      simp only [Nat.zero_add, Nat.zero_max]
      rw [gP.length_eq, maxList_perm (gP.map _)]
      have ed : (tagsOf ops).map (fun g => (Agg.expand (PT r) g).TagDepth.toNat) = (tagsOf ops).map (fun g => clamp c32 (tagDepthN r g)) :=
        map_congr_mem (fun g hg => tag_expand_clamp r ok.tags ok.tagKinds g (areTags g hg))
      rw [ed, clamp_maxList_map]

end GitSizer.Graph
