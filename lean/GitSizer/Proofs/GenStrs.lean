import GitSizer.Gen.Strs
import GitSizer.Proofs.RefFilter
import GitSizer.Proofs.Config
import GitSizer.Model.PathResolver
/-! The hand-written models of `prefixFilter.Filter` and `configKeyMatchesPrefix` ARE the functions
    regenerated from the source by tools/gostr2lean (in which an out-of-range index or slice is a
    panic): the regenerated functions never panic and return exactly what the models return. -/
namespace GitSizer

theorem indexI_ok (s : Bytes) (n : Nat) : Go.indexI s (n : Int) = match s[n]? with
    | some b => .ok b
    | none => .panic "index-out-of-range" := by
  unfold Go.indexI Go.index
  have : ¬ ((n : Int) < 0) := by omega
  simp only [this, if_false, Int.toNat_natCast]
  rfl

theorem sliceI_from (s : Bytes) (n : Nat) (h : n ≤ s.length) :
    Go.sliceI s (n : Int) (s.length : Int) = .ok (s.drop n) := by
  unfold Go.sliceI Go.slice
  have h1 : ¬ ((n : Int) < 0 ∨ (s.length : Int) < 0) := by omega
  simp only [h1, if_false, Int.toNat_natCast]
  simp [h]

theorem prefixFilter_regenerated (pfx refname : Bytes) :
    Gen.Strs.prefixFilter_Filter pfx refname = .ok (RefFilter.prefixMatch pfx refname) := by
  unfold Gen.Strs.prefixFilter_Filter RefFilter.prefixMatch
  by_cases hs : Bytes.hasSuffix pfx [47] = true
  · simp only [hs, if_true]; rfl
  · simp only [hs, Bool.false_eq_true, if_false]
    by_cases hp : Bytes.hasPrefix refname pfx = true
    · obtain ⟨r, hr⟩ := (RefFilter.hasPrefix_iff refname pfx).mp hp
      simp only [hp, pure, bind, Res.bind, if_true, Bool.true_and]
      by_cases hl : refname.length = pfx.length
      · have : ((refname.length : Int) == (pfx.length : Int)) = true := by simp [hl]
        simp [this, hl]
      · have hne : ((refname.length : Int) == (pfx.length : Int)) = false := by
          simp only [beq_eq_false_iff_ne, ne_eq, Int.natCast_inj]; exact hl
        have hlt : pfx.length < refname.length := by rw [hr]; rw [hr] at hl; simp at hl ⊢; exact Nat.pos_of_ne_zero (fun h => hl (by simp [List.eq_nil_of_length_eq_zero h]))
        simp only [hne, Bool.false_eq_true, if_false, indexI_ok]
        have hget : refname[pfx.length]? = some (refname[pfx.length]'hlt) := List.getElem?_eq_getElem hlt
        rw [hget]
        have hl' : (refname.length == pfx.length) = false := by simp [hl]
        simp [hl']
    · simp only [hp, pure, bind, Res.bind, Bool.false_eq_true, if_false, Bool.false_and]

theorem configKeyMatchesPrefix_regenerated (key pfx : Bytes) :
    Gen.Strs.configKeyMatchesPrefix key pfx = .ok (Config.keyMatchesPrefix key pfx) := by
  unfold Gen.Strs.configKeyMatchesPrefix Config.keyMatchesPrefix
  by_cases he : pfx = []
  · subst he; simp; rfl
  · have he' : (pfx == ([] : Bytes)) = false := by simp [he]
    have hie : pfx.isEmpty = false := by cases pfx <;> simp at he ⊢
    simp only [he', hie, Bool.false_eq_true, if_false]
    by_cases hp : Bytes.hasPrefix key pfx = true
    · obtain ⟨r, hr⟩ := (Config.hasPrefix_iff key pfx).mp hp
      have hple : pfx.length ≤ key.length := by rw [hr]; simp
      have hpos : 0 < pfx.length := List.length_pos_iff.mpr he
      simp only [hp, Bool.not_true, Bool.false_eq_true, if_false, pure, bind, Res.bind]
      -- prefix[len(prefix)-1]
      have hidx : ((pfx.length : Int) - 1) = ((pfx.length - 1 : Nat) : Int) := by omega
      rw [hidx, indexI_ok]
      have hlast : pfx[pfx.length - 1]? = pfx.getLast? := by
        rw [List.getLast?_eq_getElem?]
      rw [hlast]
      cases hgl : pfx.getLast? with
      | none => exact absurd (List.getLast?_eq_none_iff.mp hgl) he
      | some c =>
        simp only
        by_cases hdot : c = Config.DOT
        · subst hdot
          have : ((Config.DOT : UInt8) == (46 : UInt8)) = true := by decide
          simp only [this, if_true, sliceI_from key pfx.length hple]
        · have h46 : (c == (46 : UInt8)) = false := by
            simp only [beq_eq_false_iff_ne, ne_eq]; exact hdot
          have hne : ¬ (some c = some Config.DOT) := by simp [hdot]
          simp only [h46, Bool.false_eq_true, if_false, hne]
          by_cases hl : key.length = pfx.length
          · have : ((key.length : Int) == (pfx.length : Int)) = true := by simp [hl]
            simp [this, hl]
          · have hne2 : ((key.length : Int) == (pfx.length : Int)) = false := by
              simp only [beq_eq_false_iff_ne, ne_eq, Int.natCast_inj]; exact hl
            have hlt : pfx.length < key.length := by omega
            simp only [hne2, Bool.false_eq_true, if_false, hl, indexI_ok]
            have hget : key[pfx.length]? = some (key[pfx.length]'hlt) := List.getElem?_eq_getElem hlt
            rw [hget]
            simp only
            by_cases hd2 : key[pfx.length]'hlt = Config.DOT
            · have : ((key[pfx.length]'hlt) == (46 : UInt8)) = true := by rw [hd2]; decide
              have hidx2 : ((pfx.length : Int) + 1) = ((pfx.length + 1 : Nat) : Int) := by omega
              have hdd : ((Config.DOT : UInt8) == (46 : UInt8)) = true := by decide
              simp only [if_true, hidx2, sliceI_from key (pfx.length + 1) (by omega), hd2, hdd]
            · have : ((key[pfx.length]'hlt) == (46 : UInt8)) = false := by
                simp only [beq_eq_false_iff_ne, ne_eq]; exact hd2
              have hne3 : ¬ (some (key[pfx.length]'hlt) = some Config.DOT) := by simp [hd2]
              simp only [this, Bool.false_eq_true, if_false, hne3]
    · simp only [hp, Bool.not_false, if_true, pure]

end GitSizer

namespace GitSizer
open GitSizer.PathRes

/-- Go's `(colon int, braces bool)` result for the model's `(Option Nat × Bool)` -/
def scanConv (r : Option Nat × Bool) : Int × Bool :=
  (match r.1 with | some i => (i : Int) | none => -1, r.2)

theorem indexI_append (pre : Bytes) (c : UInt8) (cs : Bytes) :
    Go.indexI (pre ++ c :: cs) (pre.length : Int) = .ok c := by
  rw [indexI_ok]; simp

/-- the regenerated loop of `scanRevision` is the model's recursion over the rest of the name -/
theorem scanRevision_loop_regenerated : ∀ (suf pre : Bytes) (fuel d : Nat) (b : Bool) (col0 : Int),
    suf.length + 1 ≤ fuel →
    Gen.Strs.scanRevision_loop1 (pre ++ suf) fuel col0 b (d : Int) (pre.length : Int) =
      .ok (scanConv (PathRes.scanRevision d b pre.length suf)) := by
  intro suf
  induction suf with
  | nil =>
    intro pre fuel d b col0 hf
    obtain ⟨f, rfl⟩ : ∃ f, fuel = f + 1 := ⟨fuel - 1, by omega⟩
    simp [Gen.Strs.scanRevision_loop1, PathRes.scanRevision, scanConv, pure]
  | cons c cs ih =>
    intro pre fuel d b col0 hf
    obtain ⟨f, rfl⟩ : ∃ f, fuel = f + 1 := ⟨fuel - 1, by simp at hf; omega⟩
    have hlt : ((pre.length : Int) < ((pre ++ c :: cs).length : Int)) := by simp; omega
    have hrec : ∀ (d' : Nat) (b' : Bool),
        Gen.Strs.scanRevision_loop1 (pre ++ c :: cs) f col0 b' (d' : Int) ((pre.length : Int) + 1) =
          .ok (scanConv (PathRes.scanRevision d' b' (pre.length + 1) cs)) := by
      intro d' b'
      have := ih (pre ++ [c]) f d' b' col0 (by simp at hf ⊢; omega)
      simpa [List.append_assoc] using this
    unfold Gen.Strs.scanRevision_loop1 PathRes.scanRevision
    simp only [hlt, if_true, pure, bind, Res.bind, indexI_append]
    by_cases h1 : c = lbrace
    · subst h1
      have : ((lbrace : UInt8) == (123 : UInt8)) = true := by decide
      simp only [this, if_true]
      have hd : (d : Int) + 1 = ((d + 1 : Nat) : Int) := by omega
      rw [hd]; exact hrec (d + 1) true
    · have hb1 : (c == (123 : UInt8)) = false := by simp only [beq_eq_false_iff_ne, ne_eq]; exact h1
      simp only [hb1, Bool.false_eq_true, if_false, h1]
      by_cases h2 : c = rbrace ∧ d > 0
      · obtain ⟨hc, hd0⟩ := h2
        subst hc
        have : ((rbrace : UInt8) == (125 : UInt8)) = true := by decide
        have hdd : decide ((d : Int) > 0) = true := by simp; omega
        simp only [this, if_true, hdd, hd0, and_self]
        have hd : (d : Int) - 1 = ((d - 1 : Nat) : Int) := by omega
        rw [hd]; exact hrec (d - 1) b
      · have hcond : (if (c == (125 : UInt8)) = true then Res.ok (decide ((d : Int) > 0)) else Res.ok false) = Res.ok false := by
          by_cases hc : c = rbrace
          · subst hc
            have : ((rbrace : UInt8) == (125 : UInt8)) = true := by decide
            have hd0 : ¬ d > 0 := fun h => h2 ⟨rfl, h⟩
            simp only [this, if_true]
            congr 1; simp; omega
          · have : (c == (125 : UInt8)) = false := by simp only [beq_eq_false_iff_ne, ne_eq]; exact hc
            simp [this]
        simp only [hcond, Bool.false_eq_true, if_false, h2]
        by_cases h3 : c = PathRes.colon ∧ d = 0
        · obtain ⟨hc, hd0⟩ := h3
          subst hc; subst hd0
          have : ((PathRes.colon : UInt8) == (58 : UInt8)) = true := by decide
          simp [this, scanConv]
        · have hcond3 : (if (c == (58 : UInt8)) = true then Res.ok ((d : Int) == 0) else Res.ok false) = Res.ok false := by
            by_cases hc : c = PathRes.colon
            · subst hc
              have : ((PathRes.colon : UInt8) == (58 : UInt8)) = true := by decide
              have hd0 : ¬ d = 0 := fun h => h3 ⟨rfl, h⟩
              simp only [this, if_true]
              congr 1; simp; omega
            · have : (c == (58 : UInt8)) = false := by simp only [beq_eq_false_iff_ne, ne_eq]; exact hc
              simp [this]
          simp only [hcond3, Bool.false_eq_true, if_false, h3]
          exact hrec d b

theorem scanRevision_regenerated (name : Bytes) :
    Gen.Strs.scanRevision name = .ok (scanConv (PathRes.scanRevision 0 false 0 name)) := by
  unfold Gen.Strs.scanRevision
  have := scanRevision_loop_regenerated name [] (name.length + 1) 0 false 0 (Nat.le_refl _)
  simpa using this

end GitSizer

namespace GitSizer
open GitSizer.PathRes

theorem scanRevision_some_lt : ∀ (s : Bytes) (d : Nat) (b : Bool) (i0 i : Nat) (b' : Bool),
    PathRes.scanRevision d b i0 s = (some i, b') → i0 ≤ i ∧ i < i0 + s.length := by
  intro s
  induction s with
  | nil => intro d b i0 i b' h; simp [PathRes.scanRevision] at h
  | cons c cs ih =>
    intro d b i0 i b' h
    unfold PathRes.scanRevision at h
    split at h
    · have := ih _ _ _ _ _ h; simp; omega
    · split at h
      · have := ih _ _ _ _ _ h; simp; omega
      · split at h
        · simp only [Prod.mk.injEq, Option.some.injEq] at h; simp; omega
        · have := ih _ _ _ _ _ h; simp; omega

/-- `rootTreePrefix` as regenerated from sizes/path_resolver.go is the model's -/
theorem rootTreePrefix_regenerated (hex : Nat → Bytes) (name : Bytes) (oid : Nat) :
    Gen.Strs.rootTreePrefix name (hex oid) = .ok (PathRes.rootTreePrefix hex name oid) := by
  unfold Gen.Strs.rootTreePrefix PathRes.rootTreePrefix
  rw [scanRevision_regenerated]
  simp only [pure, bind, Res.bind, scanConv]
  cases hsc : PathRes.scanRevision 0 false 0 name with
  | mk res braces =>
    cases braces with
    | true => simp [PathRes.colon]
    | false =>
      cases res with
      | none => simp [PathRes.colon]
      | some i =>
        obtain ⟨_, hlt⟩ := scanRevision_some_lt name 0 false 0 i false hsc
        simp only [Nat.zero_add] at hlt
        have hne : ((i : Int) == -1) = false := by
          simp only [beq_eq_false_iff_ne, ne_eq]; omega
        simp only [Bool.false_eq_true, if_false, hne]
        have hlen : ((name.length : Int) - 1) = ((name.length - 1 : Nat) : Int) := by omega
        rw [hlen, indexI_ok]
        have hlast : name[name.length - 1]? = name.getLast? := by rw [List.getLast?_eq_getElem?]
        rw [hlast]
        by_cases h1 : i = name.length - 1
        · have : ((i : Int) == ((name.length - 1 : Nat) : Int)) = true := by simp [h1]
          simp [this, h1]
        · have : ((i : Int) == ((name.length - 1 : Nat) : Int)) = false := by
            simp only [beq_eq_false_iff_ne, ne_eq, Int.natCast_inj]; exact h1
          simp only [this, Bool.false_eq_true, if_false, h1, false_or]
          cases hgl : name.getLast? with
          | none =>
            have := List.getLast?_eq_none_iff.mp hgl
            rw [this] at hlt; simp at hlt
          | some c =>
            simp only
            by_cases hc : c = PathRes.slash
            · subst hc
              have : ((PathRes.slash : UInt8) == (47 : UInt8)) = true := by decide
              simp [this]
            · have : (c == (47 : UInt8)) = false := by simp only [beq_eq_false_iff_ne, ne_eq]; exact hc
              have hne2 : ¬ (some c = some PathRes.slash) := by simp [hc]
              simp [this, hne2]
              rfl

end GitSizer
