import GitSizer.Gen.Strs
import GitSizer.Proofs.RefFilter
import GitSizer.Proofs.Config
/-! The hand-written models of `prefixFilter.Filter` and `configKeyMatchesPrefix` ARE the functions
    regenerated from the source by tools/gostr2lean (in which an out-of-range index or slice is a
    panic): the regenerated functions never panic and return exactly what the models return. -/
namespace GitSizer

theorem indexI_ok (s : Bytes) (n : Nat) : Go.indexI s (n : Int) = match s[n]? with
    | some b => .ok b
    | none => .panic "index-out-of-range" := by
  unfold Go.indexI Go.index
  have : ¬ ((n : Int) < 0) := by omega
  simp only [this, if_false, Int.toNat_natCast]
  rfl

theorem sliceI_from (s : Bytes) (n : Nat) (h : n ≤ s.length) :
    Go.sliceI s (n : Int) (s.length : Int) = .ok (s.drop n) := by
  unfold Go.sliceI Go.slice
  have h1 : ¬ ((n : Int) < 0 ∨ (s.length : Int) < 0) := by omega
  simp only [h1, if_false, Int.toNat_natCast]
  simp [h]

theorem prefixFilter_regenerated (pfx refname : Bytes) :
    Gen.Strs.prefixFilter_Filter pfx refname = .ok (RefFilter.prefixMatch pfx refname) := by
  unfold Gen.Strs.prefixFilter_Filter RefFilter.prefixMatch
  by_cases hs : Bytes.hasSuffix pfx [47] = true
  · simp only [hs, if_true]; rfl
  · simp only [hs, Bool.false_eq_true, if_false]
    by_cases hp : Bytes.hasPrefix refname pfx = true
    · obtain ⟨r, hr⟩ := (RefFilter.hasPrefix_iff refname pfx).mp hp
      simp only [hp, pure, bind, Res.bind, if_true, Bool.true_and]
      by_cases hl : refname.length = pfx.length
      · have : ((refname.length : Int) == (pfx.length : Int)) = true := by simp [hl]
        simp [this, hl]
      · have hne : ((refname.length : Int) == (pfx.length : Int)) = false := by
          simp only [beq_eq_false_iff_ne, ne_eq, Int.natCast_inj]; exact hl
        have hlt : pfx.length < refname.length := by rw [hr]; rw [hr] at hl; simp at hl ⊢; exact Nat.pos_of_ne_zero (fun h => hl (by simp [List.eq_nil_of_length_eq_zero h]))
        simp only [hne, Bool.false_eq_true, if_false, indexI_ok]
        have hget : refname[pfx.length]? = some (refname[pfx.length]'hlt) := List.getElem?_eq_getElem hlt
        rw [hget]
        have hl' : (refname.length == pfx.length) = false := by simp [hl]
        simp [hl']
    · simp only [hp, pure, bind, Res.bind, Bool.false_eq_true, if_false, Bool.false_and]

theorem configKeyMatchesPrefix_regenerated (key pfx : Bytes) :
    Gen.Strs.configKeyMatchesPrefix key pfx = .ok (Config.keyMatchesPrefix key pfx) := by
  unfold Gen.Strs.configKeyMatchesPrefix Config.keyMatchesPrefix
  by_cases he : pfx = []
  · subst he; simp; rfl
  · have he' : (pfx == ([] : Bytes)) = false := by simp [he]
    have hie : pfx.isEmpty = false := by cases pfx <;> simp at he ⊢
    simp only [he', hie, Bool.false_eq_true, if_false]
    by_cases hp : Bytes.hasPrefix key pfx = true
    · obtain ⟨r, hr⟩ := (Config.hasPrefix_iff key pfx).mp hp
      have hple : pfx.length ≤ key.length := by rw [hr]; simp
      have hpos : 0 < pfx.length := List.length_pos_iff.mpr he
      simp only [hp, Bool.not_true, Bool.false_eq_true, if_false, pure, bind, Res.bind]
      -- prefix[len(prefix)-1]
      have hidx : ((pfx.length : Int) - 1) = ((pfx.length - 1 : Nat) : Int) := by omega
      rw [hidx, indexI_ok]
      have hlast : pfx[pfx.length - 1]? = pfx.getLast? := by
        rw [List.getLast?_eq_getElem?]
      rw [hlast]
      cases hgl : pfx.getLast? with
      | none => exact absurd (List.getLast?_eq_none_iff.mp hgl) he
      | some c =>
        simp only
        by_cases hdot : c = Config.DOT
        · subst hdot
          have : ((Config.DOT : UInt8) == (46 : UInt8)) = true := by decide
          simp only [this, if_true, sliceI_from key pfx.length hple]
        · have h46 : (c == (46 : UInt8)) = false := by
            simp only [beq_eq_false_iff_ne, ne_eq]; exact hdot
          have hne : ¬ (some c = some Config.DOT) := by simp [hdot]
          simp only [h46, Bool.false_eq_true, if_false, hne]
          by_cases hl : key.length = pfx.length
          · have : ((key.length : Int) == (pfx.length : Int)) = true := by simp [hl]
            simp [this, hl]
          · have hne2 : ((key.length : Int) == (pfx.length : Int)) = false := by
              simp only [beq_eq_false_iff_ne, ne_eq, Int.natCast_inj]; exact hl
            have hlt : pfx.length < key.length := by omega
            simp only [hne2, Bool.false_eq_true, if_false, hl, indexI_ok]
            have hget : key[pfx.length]? = some (key[pfx.length]'hlt) := List.getElem?_eq_getElem hlt
            rw [hget]
            simp only
            by_cases hd2 : key[pfx.length]'hlt = Config.DOT
            · have : ((key[pfx.length]'hlt) == (46 : UInt8)) = true := by rw [hd2]; decide
              have hidx2 : ((pfx.length : Int) + 1) = ((pfx.length + 1 : Nat) : Int) := by omega
              have hdd : ((Config.DOT : UInt8) == (46 : UInt8)) = true := by decide
              simp only [if_true, hidx2, sliceI_from key (pfx.length + 1) (by omega), hd2, hdd]
            · have : ((key[pfx.length]'hlt) == (46 : UInt8)) = false := by
                simp only [beq_eq_false_iff_ne, ne_eq]; exact hd2
              have hne3 : ¬ (some (key[pfx.length]'hlt) = some Config.DOT) := by simp [hd2]
              simp only [this, Bool.false_eq_true, if_false, hne3]
    · simp only [hp, Bool.not_false, if_true, pure]

end GitSizer
