import GitSizer.Gen.Strs
import GitSizer.Proofs.RefFilter
import GitSizer.Proofs.Config
import GitSizer.Model.PathResolver
import GitSizer.Model.Parsers
import GitSizer.Basic.Sat
import GitSizer.Model.RefGroups
import GitSizer.Proofs.Bytes
/-! The hand-written models of `prefixFilter.Filter` and `configKeyMatchesPrefix` ARE the functions
    regenerated from the source by tools/gostr2lean (in which an out-of-range index or slice is a
    panic): the regenerated functions never panic and return exactly what the models return. -/
namespace GitSizer

theorem indexI_ok (s : Bytes) (n : Nat) : Go.indexI s (n : Int) = match s[n]? with
    | some b => .ok b
    | none => .panic "index-out-of-range" := by
  unfold Go.indexI Go.index
  have : ¬ ((n : Int) < 0) := by omega
  simp only [this, if_false, Int.toNat_natCast]
  rfl

theorem sliceI_from (s : Bytes) (n : Nat) (h : n ≤ s.length) :
    Go.sliceI s (n : Int) (s.length : Int) = .ok (s.drop n) := by
  unfold Go.sliceI Go.slice
  have h1 : ¬ ((n : Int) < 0 ∨ (s.length : Int) < 0) := by omega
  simp only [h1, if_false, Int.toNat_natCast]
  simp [h]

theorem prefixFilter_regenerated (pfx refname : Bytes) :
    Gen.Strs.prefixFilter_Filter pfx refname = .ok (RefFilter.prefixMatch pfx refname) := by
  unfold Gen.Strs.prefixFilter_Filter RefFilter.prefixMatch
  by_cases hs : Bytes.hasSuffix pfx [47] = true
  · simp only [hs, if_true]; rfl
  · simp only [hs, Bool.false_eq_true, if_false]
    by_cases hp : Bytes.hasPrefix refname pfx = true
    · obtain ⟨r, hr⟩ := (RefFilter.hasPrefix_iff refname pfx).mp hp
      simp only [hp, pure, bind, Res.bind, if_true, Bool.true_and]
      by_cases hl : refname.length = pfx.length
      · have : ((refname.length : Int) == (pfx.length : Int)) = true := by simp [hl]
        simp [this, hl]
      · have hne : ((refname.length : Int) == (pfx.length : Int)) = false := by
          simp only [beq_eq_false_iff_ne, ne_eq, Int.natCast_inj]; exact hl
        have hlt : pfx.length < refname.length := by rw [hr]; rw [hr] at hl; simp at hl ⊢; exact Nat.pos_of_ne_zero (fun h => hl (by simp [List.eq_nil_of_length_eq_zero h]))
        simp only [hne, Bool.false_eq_true, if_false, indexI_ok]
        have hget : refname[pfx.length]? = some (refname[pfx.length]'hlt) := List.getElem?_eq_getElem hlt
        rw [hget]
        have hl' : (refname.length == pfx.length) = false := by simp [hl]
        simp [hl']
    · simp only [hp, pure, bind, Res.bind, Bool.false_eq_true, if_false, Bool.false_and]

theorem configKeyMatchesPrefix_regenerated (key pfx : Bytes) :
    Gen.Strs.configKeyMatchesPrefix key pfx = .ok (Config.keyMatchesPrefix key pfx) := by
  unfold Gen.Strs.configKeyMatchesPrefix Config.keyMatchesPrefix
  by_cases he : pfx = []
  · subst he; simp; rfl
  · have he' : (pfx == ([] : Bytes)) = false := by simp [he]
    have hie : pfx.isEmpty = false := by cases pfx <;> simp at he ⊢
    simp only [he', hie, Bool.false_eq_true, if_false]
    by_cases hp : Bytes.hasPrefix key pfx = true
    · obtain ⟨r, hr⟩ := (Config.hasPrefix_iff key pfx).mp hp
      have hple : pfx.length ≤ key.length := by rw [hr]; simp
      have hpos : 0 < pfx.length := List.length_pos_iff.mpr he
      simp only [hp, Bool.not_true, Bool.false_eq_true, if_false, pure, bind, Res.bind]
      -- prefix[len(prefix)-1]
      have hidx : ((pfx.length : Int) - 1) = ((pfx.length - 1 : Nat) : Int) := by omega
      rw [hidx, indexI_ok]
      have hlast : pfx[pfx.length - 1]? = pfx.getLast? := by
        rw [List.getLast?_eq_getElem?]
      rw [hlast]
      cases hgl : pfx.getLast? with
      | none => exact absurd (List.getLast?_eq_none_iff.mp hgl) he
      | some c =>
        simp only
        by_cases hdot : c = Config.DOT
        · subst hdot
          have : ((Config.DOT : UInt8) == (46 : UInt8)) = true := by decide
          simp only [this, if_true, sliceI_from key pfx.length hple]
        · have h46 : (c == (46 : UInt8)) = false := by
            simp only [beq_eq_false_iff_ne, ne_eq]; exact hdot
          have hne : ¬ (some c = some Config.DOT) := by simp [hdot]
          simp only [h46, Bool.false_eq_true, if_false, hne]
          by_cases hl : key.length = pfx.length
          · have : ((key.length : Int) == (pfx.length : Int)) = true := by simp [hl]
            simp [this, hl]
          · have hne2 : ((key.length : Int) == (pfx.length : Int)) = false := by
              simp only [beq_eq_false_iff_ne, ne_eq, Int.natCast_inj]; exact hl
            have hlt : pfx.length < key.length := by omega
            simp only [hne2, Bool.false_eq_true, if_false, hl, indexI_ok]
            have hget : key[pfx.length]? = some (key[pfx.length]'hlt) := List.getElem?_eq_getElem hlt
            rw [hget]
            simp only
            by_cases hd2 : key[pfx.length]'hlt = Config.DOT
            · have : ((key[pfx.length]'hlt) == (46 : UInt8)) = true := by rw [hd2]; decide
              have hidx2 : ((pfx.length : Int) + 1) = ((pfx.length + 1 : Nat) : Int) := by omega
              have hdd : ((Config.DOT : UInt8) == (46 : UInt8)) = true := by decide
              simp only [if_true, hidx2, sliceI_from key (pfx.length + 1) (by omega), hd2, hdd]
            · have : ((key[pfx.length]'hlt) == (46 : UInt8)) = false := by
                simp only [beq_eq_false_iff_ne, ne_eq]; exact hd2
              have hne3 : ¬ (some (key[pfx.length]'hlt) = some Config.DOT) := by simp [hd2]
              simp only [this, Bool.false_eq_true, if_false, hne3]
    · simp only [hp, Bool.not_false, if_true, pure]

end GitSizer

namespace GitSizer
open GitSizer.PathRes

/-- Go's `(colon int, braces bool)` result for the model's `(Option Nat × Bool)` -/
def scanConv (r : Option Nat × Bool) : Int × Bool :=
  (match r.1 with | some i => (i : Int) | none => -1, r.2)

theorem indexI_append (pre : Bytes) (c : UInt8) (cs : Bytes) :
    Go.indexI (pre ++ c :: cs) (pre.length : Int) = .ok c := by
  rw [indexI_ok]; simp

/-- the regenerated loop of `scanRevision` is the model's recursion over the rest of the name -/
theorem scanRevision_loop_regenerated : ∀ (suf pre : Bytes) (fuel d : Nat) (b : Bool) (col0 : Int),
    suf.length + 1 ≤ fuel →
    Gen.Strs.scanRevision_loop1 (pre ++ suf) fuel col0 b (d : Int) (pre.length : Int) =
      .ok (scanConv (PathRes.scanRevision d b pre.length suf)) := by
  intro suf
  induction suf with
  | nil =>
    intro pre fuel d b col0 hf
    obtain ⟨f, rfl⟩ : ∃ f, fuel = f + 1 := ⟨fuel - 1, by omega⟩
    simp [Gen.Strs.scanRevision_loop1, PathRes.scanRevision, scanConv, pure]
  | cons c cs ih =>
    intro pre fuel d b col0 hf
    obtain ⟨f, rfl⟩ : ∃ f, fuel = f + 1 := ⟨fuel - 1, by simp at hf; omega⟩
    have hlt : ((pre.length : Int) < ((pre ++ c :: cs).length : Int)) := by simp; omega
    have hrec : ∀ (d' : Nat) (b' : Bool),
        Gen.Strs.scanRevision_loop1 (pre ++ c :: cs) f col0 b' (d' : Int) ((pre.length : Int) + 1) =
          .ok (scanConv (PathRes.scanRevision d' b' (pre.length + 1) cs)) := by
      intro d' b'
      have := ih (pre ++ [c]) f d' b' col0 (by simp at hf ⊢; omega)
      simpa [List.append_assoc] using this
    unfold Gen.Strs.scanRevision_loop1 PathRes.scanRevision
    simp only [hlt, if_true, pure, bind, Res.bind, indexI_append]
    by_cases h1 : c = lbrace
    · subst h1
      have : ((lbrace : UInt8) == (123 : UInt8)) = true := by decide
      simp only [this, if_true]
      have hd : (d : Int) + 1 = ((d + 1 : Nat) : Int) := by omega
      rw [hd]; exact hrec (d + 1) true
    · have hb1 : (c == (123 : UInt8)) = false := by simp only [beq_eq_false_iff_ne, ne_eq]; exact h1
      simp only [hb1, Bool.false_eq_true, if_false, h1]
      by_cases h2 : c = rbrace ∧ d > 0
      · obtain ⟨hc, hd0⟩ := h2
        subst hc
        have : ((rbrace : UInt8) == (125 : UInt8)) = true := by decide
        have hdd : decide ((d : Int) > 0) = true := by simp; omega
        simp only [this, if_true, hdd, hd0, and_self]
        have hd : (d : Int) - 1 = ((d - 1 : Nat) : Int) := by omega
        rw [hd]; exact hrec (d - 1) b
      · have hcond : (if (c == (125 : UInt8)) = true then Res.ok (decide ((d : Int) > 0)) else Res.ok false) = Res.ok false := by
          by_cases hc : c = rbrace
          · subst hc
            have : ((rbrace : UInt8) == (125 : UInt8)) = true := by decide
            have hd0 : ¬ d > 0 := fun h => h2 ⟨rfl, h⟩
            simp only [this, if_true]
            congr 1; simp; omega
          · have : (c == (125 : UInt8)) = false := by simp only [beq_eq_false_iff_ne, ne_eq]; exact hc
            simp [this]
        simp only [hcond, Bool.false_eq_true, if_false, h2]
        by_cases h3 : c = PathRes.colon ∧ d = 0
        · obtain ⟨hc, hd0⟩ := h3
          subst hc; subst hd0
          have : ((PathRes.colon : UInt8) == (58 : UInt8)) = true := by decide
          simp [this, scanConv]
        · have hcond3 : (if (c == (58 : UInt8)) = true then Res.ok ((d : Int) == 0) else Res.ok false) = Res.ok false := by
            by_cases hc : c = PathRes.colon
            · subst hc
              have : ((PathRes.colon : UInt8) == (58 : UInt8)) = true := by decide
              have hd0 : ¬ d = 0 := fun h => h3 ⟨rfl, h⟩
              simp only [this, if_true]
              congr 1; simp; omega
            · have : (c == (58 : UInt8)) = false := by simp only [beq_eq_false_iff_ne, ne_eq]; exact hc
              simp [this]
          simp only [hcond3, Bool.false_eq_true, if_false, h3]
          exact hrec d b

theorem scanRevision_regenerated (name : Bytes) :
    Gen.Strs.scanRevision name = .ok (scanConv (PathRes.scanRevision 0 false 0 name)) := by
  unfold Gen.Strs.scanRevision
  have := scanRevision_loop_regenerated name [] (name.length + 1) 0 false 0 (Nat.le_refl _)
  simpa using this

end GitSizer

namespace GitSizer
open GitSizer.PathRes

theorem scanRevision_some_lt : ∀ (s : Bytes) (d : Nat) (b : Bool) (i0 i : Nat) (b' : Bool),
    PathRes.scanRevision d b i0 s = (some i, b') → i0 ≤ i ∧ i < i0 + s.length := by
  intro s
  induction s with
  | nil => intro d b i0 i b' h; simp [PathRes.scanRevision] at h
  | cons c cs ih =>
    intro d b i0 i b' h
    unfold PathRes.scanRevision at h
    split at h
    · have := ih _ _ _ _ _ h; simp; omega
    · split at h
      · have := ih _ _ _ _ _ h; simp; omega
      · split at h
        · simp only [Prod.mk.injEq, Option.some.injEq] at h; simp; omega
        · have := ih _ _ _ _ _ h; simp; omega

/-- `rootTreePrefix` as regenerated from sizes/path_resolver.go is the model's -/
theorem rootTreePrefix_regenerated (hex : Nat → Bytes) (name : Bytes) (oid : Nat) :
    Gen.Strs.rootTreePrefix name (hex oid) = .ok (PathRes.rootTreePrefix hex name oid) := by
  unfold Gen.Strs.rootTreePrefix PathRes.rootTreePrefix
  rw [scanRevision_regenerated]
  simp only [pure, bind, Res.bind, scanConv]
  cases hsc : PathRes.scanRevision 0 false 0 name with
  | mk res braces =>
    cases braces with
    | true => simp [PathRes.colon]
    | false =>
      cases res with
      | none => simp [PathRes.colon]
      | some i =>
        obtain ⟨_, hlt⟩ := scanRevision_some_lt name 0 false 0 i false hsc
        simp only [Nat.zero_add] at hlt
        have hne : ((i : Int) == -1) = false := by
          simp only [beq_eq_false_iff_ne, ne_eq]; omega
        simp only [Bool.false_eq_true, if_false, hne]
        have hlen : ((name.length : Int) - 1) = ((name.length - 1 : Nat) : Int) := by omega
        rw [hlen, indexI_ok]
        have hlast : name[name.length - 1]? = name.getLast? := by rw [List.getLast?_eq_getElem?]
        rw [hlast]
        by_cases h1 : i = name.length - 1
        · have : ((i : Int) == ((name.length - 1 : Nat) : Int)) = true := by simp [h1]
          simp [this, h1]
        · have : ((i : Int) == ((name.length - 1 : Nat) : Int)) = false := by
            simp only [beq_eq_false_iff_ne, ne_eq, Int.natCast_inj]; exact h1
          simp only [this, Bool.false_eq_true, if_false, h1, false_or]
          cases hgl : name.getLast? with
          | none =>
            have := List.getLast?_eq_none_iff.mp hgl
            rw [this] at hlt; simp at hlt
          | some c =>
            simp only
            by_cases hc : c = PathRes.slash
            · subst hc
              have : ((PathRes.slash : UInt8) == (47 : UInt8)) = true := by decide
              simp [this]
            · have : (c == (47 : UInt8)) = false := by simp only [beq_eq_false_iff_ne, ne_eq]; exact hc
              have hne2 : ¬ (some c = some PathRes.slash) := by simp [hc]
              simp [this, hne2]
              rfl

end GitSizer

namespace GitSizer
open GitSizer.Parsers

/-- same outcome: equal values (up to `R`), or both an error, or both a panic -/
def Res.sim {α β : Type} (R : α → β → Prop) : Res α → Res β → Prop
  | .ok a, .ok b => R a b
  | .err _, .err _ => True
  | .panic _, .panic _ => True
  | _, _ => False

theorem splitOn_ne_nil (c : UInt8) : ∀ (s : Bytes), Bytes.splitOn c s ≠ [] := by
  intro s
  induction s with
  | nil => simp [Bytes.splitOn]
  | cons b bs ih =>
    unfold Bytes.splitOn
    cases h : Bytes.splitOn c bs with
    | nil => simp
    | cons w ws => by_cases hb : b = c <;> simp [hb]

theorem indexL_ok (l : List Bytes) (n : Nat) : Go.indexL l (n : Int) = match l[n]? with
    | some w => .ok w
    | none => .panic "index-out-of-range" := by
  unfold Go.indexL
  have : ¬ ((n : Int) < 0) := by omega
  simp only [this, if_false, Int.toNat_natCast]
  rfl

theorem indexL_last (l : List Bytes) (h : l ≠ []) :
    Go.indexL l ((l.length : Int) - 1) = .ok (l.getLast h) := by
  have hpos : 0 < l.length := List.length_pos_iff.mpr h
  have : ((l.length : Int) - 1) = ((l.length - 1 : Nat) : Int) := by omega
  rw [this, indexL_ok]
  have : l[l.length - 1]? = some (l.getLast h) := by
    rw [List.getLast_eq_getElem]; exact List.getElem?_eq_getElem (by omega)
  rw [this]

/-- `ParseReference` as regenerated from git/reference.go has the model's outcome -/
theorem parseReference_regenerated (line : Bytes) :
    Res.sim (fun t (r : Reference) => t = (r.refname, r.objType, r.size, r.oid))
      (Gen.Strs.ParseReference line) (parseReference line) := by
  unfold Gen.Strs.ParseReference parseReference
  simp only [pure, bind, Res.bind]
  cases hw : Bytes.splitOn 32 line with
  | nil => exact absurd hw (splitOn_ne_nil 32 line)
  | cons w0 t0 =>
    cases t0 with
    | nil => simp [Res.sim]
    | cons w1 t1 =>
      cases t1 with
      | nil => simp [Res.sim]
      | cons w2 t2 =>
        cases t2 with
        | nil => simp [Res.sim]
        | cons w3 t3 =>
          cases t3 with
          | cons w4 t4 =>
            have hlen : ¬ ((t4.length : Int) + 1 + 1 + 1 + 1 + 1 = 4) := by omega
            simp [Res.sim, hlen]
          | nil =>
            have h0 : Go.indexL [w0, w1, w2, w3] (0 : Int) = .ok w0 := by
              have := indexL_ok [w0, w1, w2, w3] 0; simpa using this
            have h1 : Go.indexL [w0, w1, w2, w3] (1 : Int) = .ok w1 := by
              have := indexL_ok [w0, w1, w2, w3] 1; simpa using this
            have h2 : Go.indexL [w0, w1, w2, w3] (2 : Int) = .ok w2 := by
              have := indexL_ok [w0, w1, w2, w3] 2; simpa using this
            have h3 : Go.indexL [w0, w1, w2, w3] (3 : Int) = .ok w3 := by
              have := indexL_ok [w0, w1, w2, w3] 3; simpa using this
            simp only [List.length_cons, List.length_nil, h0, h1, h2, h3]
            simp only [Go.newOIDR, Go.parseUintR]
            cases Go.newOID w0 with
            | none => simp [Res.sim]
            | some oid =>
              cases Go.parseUint w2 10 64 with
              | none => simp [Res.sim]
              | some sz => simp [Res.sim, clamp, c32]

end GitSizer

namespace GitSizer
open GitSizer.Parsers

theorem sliceI_dropLast (s : Bytes) (h : s ≠ []) :
    Go.sliceI s (0 : Int) ((s.length : Int) - 1) = .ok s.dropLast := by
  have hpos : 0 < s.length := List.length_pos_iff.mpr h
  have e : ((s.length : Int) - 1) = ((s.length - 1 : Nat) : Int) := by omega
  unfold Go.sliceI Go.slice
  rw [e]
  have h1 : ¬ ((0 : Int) < 0 ∨ ((s.length - 1 : Nat) : Int) < 0) := by omega
  simp only [h1, if_false, Int.toNat_natCast, Int.toNat_zero]
  have h2 : 0 ≤ s.length - 1 ∧ s.length - 1 ≤ s.length := by omega
  simp only [h2, and_self, if_true, List.drop_zero]
  rw [List.dropLast_eq_take]

/-- `ParseBatchHeader` as regenerated from git/batch_header.go has the model's outcome: it never
    panics (every index is guarded) and returns the same (oid, type, size) or an error in the same cases -/
theorem parseBatchHeader_regenerated (spec header : Bytes) :
    Res.sim (fun t (h : BatchHeader) => t = (h.oid, h.objType, h.size))
      (Gen.Strs.ParseBatchHeader spec header) (parseBatchHeader header) := by
  unfold Gen.Strs.ParseBatchHeader parseBatchHeader
  simp only [pure, bind, Res.bind]
  by_cases he : header = []
  · subst he; simp [Res.sim]
  · have hemp : header.isEmpty = false := by cases header <;> simp at he ⊢
    have hlen0 : ((header.length : Int) == 0) = false := by
      have : 0 < header.length := List.length_pos_iff.mpr he
      simp only [beq_eq_false_iff_ne, ne_eq]; omega
    have hidx : ((header.length : Int) - 1) = ((header.length - 1 : Nat) : Int) := by
      have : 0 < header.length := List.length_pos_iff.mpr he
      omega
    simp only [hlen0, Bool.false_eq_true, if_false, hemp, false_or]
    rw [hidx, indexI_ok]
    have hlast : header[header.length - 1]? = header.getLast? := by rw [List.getLast?_eq_getElem?]
    rw [hlast]
    cases hgl : header.getLast? with
    | none => exact absurd (List.getLast?_eq_none_iff.mp hgl) he
    | some c =>
      simp only
      by_cases hc : c = 10
      · subst hc
        have hne : (((10 : UInt8) != (10 : UInt8))) = false := by decide
        simp only [hne, Bool.false_eq_true, if_false, ne_eq, not_true_eq_false]
        rw [← hidx, sliceI_dropLast header he]
        simp only
        have hwne := splitOn_ne_nil 32 header.dropLast
        generalize hws : Bytes.splitOn 32 header.dropLast = words at *
        rw [indexL_last words hwne]
        simp only
        have hgl2 : words.getLast? = some (words.getLast hwne) := List.getLast?_eq_some_getLast hwne
        rw [hgl2]
        by_cases hm : words.getLast hwne = kMissing
        · have : (words.getLast hwne == ([109, 105, 115, 115, 105, 110, 103] : Bytes)) = true := by
            rw [hm]; decide
          simp only [this, if_true, hm]
          have h0 : Go.indexL words (0 : Int) = .ok (words.head hwne) := by
            have := indexL_ok words 0
            cases words with
            | nil => exact absurd rfl hwne
            | cons w ws => simpa using this
          have hk : kMissing = [109, 105, 115, 115, 105, 110, 103] := rfl
          by_cases hs : spec = []
          · simp [hs, h0, Res.sim, hk]
          · have : (spec == ([] : Bytes)) = false := by simp [hs]
            simp [this, Res.sim, hk]
        · have : (words.getLast hwne == ([109, 105, 115, 115, 105, 110, 103] : Bytes)) = false := by
            simp only [beq_eq_false_iff_ne, ne_eq]; exact hm
          have hne2 : ¬ (some (words.getLast hwne) = some kMissing) := by simp [hm]
          simp only [this, Bool.false_eq_true, if_false, hne2]
          match words, hwne with
          | [w0], _ => simp [Res.sim]
          | [w0, w1], _ => simp [Res.sim]
          | w0 :: w1 :: w2 :: w3 :: t, _ =>
            have hl : ¬ ((t.length : Int) + 1 + 1 + 1 + 1 = 3) := by omega
            simp [Res.sim, hl]
          | [w0, w1, w2], _ =>
            have h0 : Go.indexL [w0, w1, w2] (0 : Int) = .ok w0 := by
              have := indexL_ok [w0, w1, w2] 0; simpa using this
            have h1 : Go.indexL [w0, w1, w2] (1 : Int) = .ok w1 := by
              have := indexL_ok [w0, w1, w2] 1; simpa using this
            have h2 : Go.indexL [w0, w1, w2] (2 : Int) = .ok w2 := by
              have := indexL_ok [w0, w1, w2] 2; simpa using this
            simp only [List.length_cons, List.length_nil, h0, h1, h2, Go.newOIDR, Go.parseUintR]
            cases Go.newOID w0 with
            | none => simp [Res.sim]
            | some oid =>
              cases Go.parseUint w2 10 64 with
              | none => simp [Res.sim]
              | some sz => simp [Res.sim]
      · have hne : (c != (10 : UInt8)) = true := by simp [hc]
        have hne2 : ¬ (some c = some (10 : UInt8)) := by simp [hc]
        simp [hne, hne2, Res.sim]

end GitSizer

namespace GitSizer
open GitSizer.Config

/-- `bytes.IndexByte` and the model's `splitFirst` find the same byte -/
theorem splitFirst_indexOf (b : UInt8) : ∀ (s : Bytes),
    (Bytes.indexOf b s = none ∧ splitFirst b s = none) ∨
    (∃ i, Bytes.indexOf b s = some i ∧ i < s.length ∧ splitFirst b s = some (s.take i, s.drop (i + 1))) := by
  intro s
  induction s with
  | nil => left; simp [Bytes.indexOf, splitFirst]
  | cons x xs ih =>
    by_cases hx : x = b
    · right; exact ⟨0, by simp [Bytes.indexOf, hx], by simp, by simp [splitFirst, hx]⟩
    · rcases ih with ⟨h1, h2⟩ | ⟨i, h1, h2, h3⟩
      · left; simp [Bytes.indexOf, splitFirst, hx, h1, h2]
      · right; exact ⟨i + 1, by simp [Bytes.indexOf, hx, h1], by simp; omega, by simp [splitFirst, hx, h3]⟩

theorem sliceI_take (s : Bytes) (i : Nat) (h : i ≤ s.length) : Go.sliceI s (0 : Int) (i : Int) = .ok (s.take i) := by
  unfold Go.sliceI Go.slice
  have h1 : ¬ ((0 : Int) < 0 ∨ (i : Int) < 0) := by omega
  simp [h1, h]

/-- the entries the model keeps from the raw records -/
def keepEntries (pfx : Bytes) (recs : List (Bytes × Bytes)) : List (Bytes × Bytes) :=
  recs.filterMap fun (k, v) =>
    let (ok, rest) := keyMatchesPrefix k pfx
    if ok then some (rest, v) else none

theorem getConfig_loop_regenerated (pfx : Bytes) : ∀ (fuel : Nat) (out : Bytes) (acc : List (Bytes × Bytes)),
    out.length + 1 ≤ fuel →
    Gen.Strs.GetConfig_records_loop1 pfx fuel out acc =
      match parseListing fuel out with
      | some recs => .ok (acc ++ keepEntries pfx recs)
      | none => .err "error" := by
  intro fuel
  induction fuel with
  | zero => intro out acc h; omega
  | succ f ih =>
    intro out acc hf
    unfold Gen.Strs.GetConfig_records_loop1
    cases out with
    | nil => simp [parseListing, keepEntries, pure]
    | cons x xs =>
      have hpos : ((x :: xs).length : Int) > 0 := by simp
      simp only [hpos, if_true, pure, bind, Res.bind]
      unfold parseListing
      rcases splitFirst_indexOf NUL (x :: xs) with ⟨h1, h2⟩ | ⟨i, h1, h2, h3⟩
      · have hib : Go.indexByteI (x :: xs) (0 : UInt8) = -1 := by
          unfold Go.indexByteI; rw [show (0 : UInt8) = NUL from rfl, h1]
        simp [hib, h2]
      · have hib : Go.indexByteI (x :: xs) (0 : UInt8) = (i : Int) := by
          unfold Go.indexByteI; rw [show (0 : UInt8) = NUL from rfl, h1]
        have hne : (((i : Int)) == -1) = false := by simp only [beq_eq_false_iff_ne, ne_eq]; omega
        have hs1 : Go.sliceI (x :: xs) (0 : Int) (i : Int) = .ok ((x :: xs).take i) := sliceI_take _ i (by omega)
        have hi1 : ((i : Int) + 1) = ((i + 1 : Nat) : Int) := by omega
        have hs2 : Go.sliceI (x :: xs) ((i : Int) + 1) (((x :: xs).length : Nat) : Int) = .ok ((x :: xs).drop (i + 1)) := by
          rw [hi1]; exact sliceI_from _ (i + 1) (by omega)
        rw [hib]
        simp only [hne, Bool.false_eq_true, if_false, hs1, hs2, h3]
        generalize hrec : (x :: xs).take i = record at *
        generalize hrest : (x :: xs).drop (i + 1) = rest at *
        have hrl : rest.length + 1 ≤ f := by
          rw [← hrest]; simp only [List.length_drop]; simp at hf h2 ⊢; omega
        -- key / value
        rcases splitFirst_indexOf LF record with ⟨k1, k2⟩ | ⟨j, k1, k2, k3⟩
        · have hkb : Go.indexByteI record (10 : UInt8) = -1 := by
            unfold Go.indexByteI; rw [show (10 : UInt8) = LF from rfl, k1]
          have : (((-1 : Int)) != -1) = false := by decide
          simp only [hkb, this, Bool.false_eq_true, if_false, k2]
          rw [configKeyMatchesPrefix_regenerated]
          simp only
          cases hk : keyMatchesPrefix record pfx with
          | mk okb restk =>
            simp only
            cases okb with
            | false =>
              simp only [Bool.not_false, if_true]
              rw [ih rest acc hrl]
              cases parseListing f rest with
              | none => rfl
              | some l => simp [keepEntries, hk]
            | true =>
              simp only [Bool.not_true, Bool.false_eq_true, if_false]
              rw [ih rest (acc ++ [(restk, [])]) hrl]
              cases parseListing f rest with
              | none => rfl
              | some l => simp [keepEntries, hk]
        · have hkb : Go.indexByteI record (10 : UInt8) = (j : Int) := by
            unfold Go.indexByteI; rw [show (10 : UInt8) = LF from rfl, k1]
          have hjne : (((j : Int)) != -1) = true := by simp
          have ht1 : Go.sliceI record (0 : Int) (j : Int) = .ok (record.take j) := sliceI_take _ j (by omega)
          have hj1 : ((j : Int) + 1) = ((j + 1 : Nat) : Int) := by omega
          have ht2 : Go.sliceI record ((j : Int) + 1) ((record.length : Nat) : Int) = .ok (record.drop (j + 1)) := by
            rw [hj1]; exact sliceI_from _ (j + 1) (by omega)
          simp only [hkb, hjne, if_true, ht1, ht2, k3]
          rw [configKeyMatchesPrefix_regenerated]
          simp only
          cases hk : keyMatchesPrefix (record.take j) pfx with
          | mk okb restk =>
            simp only
            cases okb with
            | false =>
              simp only [Bool.not_false, if_true]
              rw [ih rest acc hrl]
              cases parseListing f rest with
              | none => rfl
              | some l => simp [keepEntries, hk]
            | true =>
              simp only [Bool.not_true, Bool.false_eq_true, if_false]
              rw [ih rest (acc ++ [(restk, record.drop (j + 1))]) hrl]
              cases parseListing f rest with
              | none => rfl
              | some l => simp [keepEntries, hk]

/-- **the record loop of `GetConfig`, REGENERATED from git/gitconfig.go, is the model's `getConfig`**:
    it never panics (every slice is in range, the fuel suffices) and returns exactly the entries the
    model returns, or an error exactly when the model rejects the listing -/
theorem getConfig_regenerated (pfx listing : Bytes) :
    Gen.Strs.GetConfig_records pfx listing =
      match getConfig listing pfx with
      | some es => .ok es
      | none => .err "error" := by
  unfold Gen.Strs.GetConfig_records getConfig
  simp only [pure, bind, Res.bind]
  rw [getConfig_loop_regenerated pfx (listing.length + 1) listing [] (Nat.le_refl _)]
  cases parseListing (listing.length + 1) listing with
  | none => rfl
  | some recs => simp [keepEntries]

/-! ## `splitKey` and `parentName` of internal/refopts/ref_group_builder.go, REGENERATED -/

theorem lastIndexOf_lt {c : UInt8} {s : Bytes} {i : Nat} (h : Bytes.lastIndexOf c s = some i) : i < s.length := by
  unfold Bytes.lastIndexOf at h
  cases hi : Bytes.indexOf c s.reverse with
  | none => simp [hi] at h
  | some j =>
    simp only [hi, Option.some.injEq] at h
    have := Bytes.indexOf_lt hi
    simp only [List.length_reverse] at this
    omega

/-- **`splitKey` as the source says it**: never panics and equals the model's `Config.splitKey` (at the LAST '.') -/
theorem splitKey_regenerated (key : Bytes) : Gen.Strs.splitKey key = .ok (Config.splitKey key) := by
  unfold Gen.Strs.splitKey Config.splitKey Go.lastIndexByteI
  have hdot : (46 : UInt8) = Config.DOT := rfl
  rw [hdot]
  cases h : Bytes.lastIndexOf Config.DOT key with
  | none => simp [pure]
  | some i =>
    have hlt := lastIndexOf_lt h
    have hne : ((i : Int) == -1) = false := by
      have : (i : Int) ≠ -1 := by omega
      simpa using this
    simp only [hne, Bool.false_eq_true, if_false, pure, bind, Res.bind]
    rw [sliceI_take key i (by omega)]
    have e : ((i : Int) + 1) = ((i + 1 : Nat) : Int) := by omega
    simp only [e]
    rw [sliceI_from key (i + 1) (by omega)]

/-- **`parentName` as the source says it** equals the model's `RefGroups.parentName` -/
theorem parentName_regenerated (sym : Bytes) : Gen.Strs.parentName sym = .ok (RefGroups.parentName sym) := by
  unfold Gen.Strs.parentName RefGroups.parentName Go.lastIndexByteI
  have hdot : (46 : UInt8) = RefGroups.DOT := rfl
  rw [hdot]
  cases h : Bytes.lastIndexOf RefGroups.DOT sym with
  | none => simp [pure]
  | some i =>
    have hlt := lastIndexOf_lt h
    have hne : ((i : Int) == -1) = false := by
      have : (i : Int) ≠ -1 := by omega
      simpa using this
    simp only [hne, Bool.false_eq_true, if_false, pure, bind, Res.bind]
    rw [sliceI_take sym i (by omega)]

end GitSizer
