import GitSizer.Model.Regex
/-! `matchB` decides `FullMatch`: Brzozowski derivatives with context-sensitive anchors are correct
    with respect to the denotation `Den`, for every expression and every subject. -/
namespace GitSizer.Regex

theorem nullable_of_den {r : Re} {pre m post : Bytes} (h : Den r pre m post) (hm : m = []) :
    nullable pre.isEmpty post.isEmpty r = true := by
  induction h with
  | eps => rfl
  | cls _ _ _ => cases hm
  | bol _ => rfl
  | eol _ => rfl
  | @seq a b pre m1 m2 post _ _ iha ihb =>
    have h1 : m1 = [] := (List.append_eq_nil_iff.mp hm).1
    have h2 : m2 = [] := (List.append_eq_nil_iff.mp hm).2
    subst h1; subst h2
    have ha := iha rfl
    have hb := ihb rfl
    simp only [List.nil_append, List.append_nil] at ha hb
    simp [nullable, ha, hb]
  | altL _ ih => simp [nullable, ih hm]
  | altR _ ih => simp [nullable, ih hm]
  | starNil _ _ => rfl
  | starCons _ _ _ _ => rfl

theorem den_of_nullable (r : Re) (pre post : Bytes) (h : nullable pre.isEmpty post.isEmpty r = true) :
    Den r pre [] post := by
  induction r with
  | none => cases h
  | eps => exact .eps _ _
  | cls _ _ => cases h
  | bol =>
    simp only [nullable, List.isEmpty_iff] at h
    subst h
    exact .bol _
  | eol =>
    simp only [nullable, List.isEmpty_iff] at h
    subst h
    exact .eol _
  | seq a b iha ihb =>
    simp only [nullable, Bool.and_eq_true] at h
    have ha := iha h.1
    have hb := ihb h.2
    have : Den (.seq a b) pre ([] ++ []) post := .seq (by simpa using ha) (by simpa using hb)
    simpa using this
  | alt a b iha ihb =>
    simp only [nullable, Bool.or_eq_true] at h
    rcases h with h | h
    · exact .altL (iha h)
    · exact .altR (ihb h)
  | star a _ => exact .starNil _ _

theorem nullable_iff (r : Re) (pre post : Bytes) :
    nullable pre.isEmpty post.isEmpty r = true ↔ Den r pre [] post :=
  ⟨den_of_nullable r pre post, fun h => nullable_of_den h rfl⟩

/-- a non-empty match of a star starts with a non-empty iteration -/
theorem star_split {a : Re} {pre w post : Bytes} (h : Den (.star a) pre w post) :
    ∀ c m, w = c :: m → ∃ m1 m2, m = m1 ++ m2 ∧ Den a pre (c :: m1) (m2 ++ post) ∧ Den (.star a) (pre ++ c :: m1) m2 post := by
  generalize hr : Re.star a = r at h
  induction h with
  | eps => cases hr
  | cls _ _ _ => cases hr
  | bol _ => cases hr
  | eol _ => cases hr
  | seq _ _ _ _ => cases hr
  | altL _ _ => cases hr
  | altR _ _ => cases hr
  | starNil _ _ => intro c m hw; cases hw
  | @starCons a' pre m1 m2 post h1 h2 _ ih2 =>
    cases hr
    intro c m hw
    cases m1 with
    | nil =>
      have ih := ih2 rfl
      simp only [List.nil_append, List.append_nil] at hw h2 ih
      exact ih c m hw
    | cons d m1' =>
      simp only [List.cons_append, List.cons.injEq] at hw
      obtain ⟨rfl, rfl⟩ := hw
      exact ⟨m1', m2, rfl, h1, h2⟩

theorem cons_ne_nil_append (pre : Bytes) (c : UInt8) : (pre ++ [c]).isEmpty = false := by
  cases pre <;> rfl

/-- soundness of one derivative step -/
theorem den_of_deriv (r : Re) (pre : Bytes) (c : UInt8) : ∀ (m post : Bytes),
    Den (deriv pre.isEmpty c r) (pre ++ [c]) m post → Den r pre (c :: m) post := by
  induction r with
  | none => intro m post h; cases h
  | eps => intro m post h; cases h
  | cls neg rs =>
    intro m post h
    simp only [deriv] at h
    by_cases hc : inCls neg rs c = true
    · rw [if_pos hc] at h
      cases h
      exact .cls _ _ hc
    · rw [if_neg hc] at h
      cases h
  | bol => intro m post h; cases h
  | eol => intro m post h; cases h
  | seq a b iha ihb =>
    intro m post h
    have left : ∀ m post, Den (.seq (deriv pre.isEmpty c a) b) (pre ++ [c]) m post → Den (.seq a b) pre (c :: m) post := by
      intro m post h
      cases h with
      | @seq _ _ _ m1 m2 _ h1 h2 =>
        have ha := iha m1 (m2 ++ post) h1
        have : Den (.seq a b) pre ((c :: m1) ++ m2) post := .seq ha (by simpa using h2)
        simpa using this
    simp only [deriv] at h
    by_cases hn : nullable pre.isEmpty false a = true
    · rw [if_pos hn] at h
      cases h with
      | altL h => exact left m post h
      | altR h =>
        have hb := ihb m post h
        have ha : Den a pre [] ((c :: m) ++ post) := den_of_nullable a pre _ (by simpa using hn)
        have : Den (.seq a b) pre ([] ++ (c :: m)) post := .seq ha (by simpa using hb)
        simpa using this
    · rw [if_neg hn] at h
      exact left m post h
  | alt a b iha ihb =>
    intro m post h
    simp only [deriv] at h
    cases h with
    | altL h => exact .altL (iha m post h)
    | altR h => exact .altR (ihb m post h)
  | star a iha =>
    intro m post h
    simp only [deriv] at h
    cases h with
    | @seq _ _ _ m1 m2 _ h1 h2 =>
      have ha := iha m1 (m2 ++ post) h1
      have : Den (.star a) pre ((c :: m1) ++ m2) post := .starCons ha (by simpa using h2)
      simpa using this

/-- completeness of one derivative step -/
theorem deriv_of_den (r : Re) (pre : Bytes) (c : UInt8) : ∀ (m post : Bytes),
    Den r pre (c :: m) post → Den (deriv pre.isEmpty c r) (pre ++ [c]) m post := by
  induction r with
  | none => intro m post h; cases h
  | eps => intro m post h; cases h
  | cls neg rs =>
    intro m post h
    cases h with
    | cls _ _ hc =>
      simp only [deriv, hc, if_true]
      exact .eps _ _
  | bol => intro m post h; cases h
  | eol => intro m post h; cases h
  | seq a b iha ihb =>
    intro m post h
    generalize hw : c :: m = w at h
    cases h with
    | @seq _ _ _ m1 m2 _ h1 h2 =>
      cases m1 with
      | nil =>
        simp only [List.nil_append, List.append_nil] at hw h2
        subst hw
        have hn : nullable pre.isEmpty false a = true := by
          have := nullable_of_den h1 rfl
          simpa using this
        simp only [deriv, hn, if_true]
        exact .altR (ihb m post h2)
      | cons d m1' =>
        simp only [List.cons_append, List.cons.injEq] at hw
        obtain ⟨rfl, rfl⟩ := hw
        have ha := iha m1' (m2 ++ post) h1
        have hs : Den (.seq (deriv pre.isEmpty c a) b) (pre ++ [c]) (m1' ++ m2) post := .seq ha (by simpa using h2)
        simp only [deriv]
        by_cases hn : nullable pre.isEmpty false a = true
        · rw [if_pos hn]; exact .altL hs
        · rw [if_neg hn]; exact hs
  | alt a b iha ihb =>
    intro m post h
    simp only [deriv]
    cases h with
    | altL h => exact .altL (iha m post h)
    | altR h => exact .altR (ihb m post h)
  | star a iha =>
    intro m post h
    obtain ⟨m1, m2, rfl, h1, h2⟩ := star_split h c m rfl
    simp only [deriv]
    exact .seq (iha m1 (m2 ++ post) h1) (by simpa using h2)

theorem run_iff (w : Bytes) : ∀ (r : Re) (pre : Bytes), run pre.isEmpty r w = true ↔ Den r pre w [] := by
  induction w with
  | nil => intro r pre; exact nullable_iff r pre []
  | cons c cs ih =>
    intro r pre
    have h := ih (deriv pre.isEmpty c r) (pre ++ [c])
    rw [cons_ne_nil_append] at h
    simp only [run]
    rw [h]
    exact ⟨den_of_deriv r pre c cs [], deriv_of_den r pre c cs []⟩

/-- **the executable matcher decides full match** -/
theorem matchB_iff (r : Re) (w : Bytes) : matchB r w = true ↔ FullMatch r w := run_iff w r []

/-- wrapping an expression as `^(?:…)$` changes nothing for full match … -/
theorem anchored_group_iff (r : Re) (w : Bytes) : FullMatch (.seq .bol (.seq r .eol)) w ↔ FullMatch r w := by
  unfold FullMatch
  constructor
  · intro h
    generalize hp : ([] : Bytes) = pre at h
    cases h with
    | @seq _ _ _ m1 m2 _ h1 h2 =>
      cases h1
      simp only [List.append_nil, List.nil_append] at h2 ⊢
      generalize hq : ([] : Bytes) = post at h2
      cases h2 with
      | @seq _ _ _ m3 m4 _ h3 h4 =>
        cases h4
        simpa using h3
  · intro h
    have h2 : Den (.seq r .eol) ([] ++ []) (w ++ []) [] := .seq (by simpa using h) (.eol _)
    have : Den (.seq .bol (.seq r .eol)) [] ([] ++ (w ++ [])) [] := .seq (.bol _) h2
    simpa using this

/-! ## `MatchString` is a SEARCH: some part of the name matches -/

theorem den_anyStar (m : Bytes) : ∀ (pre post : Bytes), Den anyStar pre m post := by
  induction m with
  | nil => intro pre post; exact .starNil _ _
  | cons c cs ih =>
    intro pre post
    have h1 : Den (.cls true []) pre [c] (cs ++ post) := .cls _ _ (by simp [inCls])
    have : Den anyStar pre ([c] ++ cs) post := .starCons h1 (ih _ _)
    simpa using this

theorem searchB_iff (r : Re) (w : Bytes) : searchB r w = true ↔ Search r w := by
  unfold searchB
  rw [matchB_iff]
  unfold FullMatch Search
  constructor
  · intro h
    generalize hp : ([] : Bytes) = pre at h
    cases h with
    | @seq _ _ _ m1 m23 _ _ h2 =>
      subst hp
      generalize hq : ([] : Bytes) = post at h2
      cases h2 with
      | @seq _ _ _ m2 m3 _ h3 _ =>
        subst hq
        exact ⟨m1, m2, m3, by simp, by simpa using h3⟩
  · rintro ⟨pre, m, post, rfl, h⟩
    have h2 : Den (.seq r anyStar) ([] ++ pre) (m ++ post) [] :=
      .seq (by simpa using h) (den_anyStar _ _ _)
    have : Den (.seq anyStar (.seq r anyStar)) [] (pre ++ (m ++ post)) [] := .seq (den_anyStar _ _ _) h2
    simpa using this

/-- **what git-sizer hands to `MatchString` — `^(?:p)$` — selects exactly the names that `p` matches entirely** -/
theorem search_anchored_group_iff (r : Re) (w : Bytes) : Search (.seq .bol (.seq r .eol)) w ↔ FullMatch r w := by
  constructor
  · rintro ⟨pre, m, post, rfl, h⟩
    cases h with
    | @seq _ _ _ m1 m2 _ h1 h2 =>
      cases h1
      simp only [List.append_nil, List.nil_append] at h2 ⊢
      cases h2 with
      | @seq _ _ _ m3 m4 _ h3 h4 =>
        cases h4
        simpa [FullMatch] using h3
  · intro h
    exact ⟨[], w, [], by simp, (anchored_group_iff r w).mpr h⟩

end GitSizer.Regex
