import GitSizer.Basic.Bytes
import GitSizer.Basic.Sat
import GitSizer.Model.Agg
/-! The object graph of a repository as data, and the specification-level quantities of
    C01–C05/C09 over `Nat` "true values": reachability, census, maxima, recursive tree expansion,
    history depth, tag depth. An object id is the object's index in the list; an object may
    reference only smaller indices (a hash commits to its children). -/
namespace GitSizer.Spec
open GitSizer

structure Entry where
  mode : Nat
  name : Bytes
  oid : Nat
deriving Repr, DecidableEq

inductive Kind where
  | tree | gitlink | symlink | blob
deriving Repr, DecidableEq

/-- `entry.Filemode & 0o170000` -/
def Entry.kind (e : Entry) : Kind :=
  let t := e.mode &&& 0o170000
  if t = 0o40000 then .tree else if t = 0o160000 then .gitlink else if t = 0o120000 then .symlink else .blob

inductive Obj where
  | blob (size : Nat)
  | tree (size : Nat) (entries : List Entry)
  | commit (size : Nat) (tree : Nat) (parents : List Nat)
  | tag (size : Nat) (referent : Nat) (refIsTag : Bool)
deriving Repr

abbrev Repo := List Obj

def Repo.obj (r : Repo) (i : Nat) : Option Obj := r[i]?

def Repo.entries (r : Repo) (t : Nat) : List Entry :=
  match r.obj t with
  | some (.tree _ es) => es
  | _ => []

def Repo.blobSize (r : Repo) (b : Nat) : Nat :=
  match r.obj b with
  | some (.blob s) => s
  | _ => 0

/-- outgoing edges that the traversal follows (submodule links excluded) -/
def Repo.edges (r : Repo) (i : Nat) : List Nat :=
  match r.obj i with
  | some (.tree _ es) => (es.filter (fun e => e.kind != .gitlink)).map (·.oid)
  | some (.commit _ t ps) => t :: ps
  | some (.tag _ o _) => [o]
  | _ => []

/-- well-formed: every edge points to a smaller index -/
def Repo.WF (r : Repo) : Prop := ∀ i, ∀ j ∈ r.edges i, j < i

/-- reachable set as a membership vector, by one downward sweep from the highest index
    (correct because edges point downwards) -/
def reachSweep (r : Repo) : Nat → List Bool → List Bool
  | 0, marks => marks
  | i + 1, marks =>
    let marks' := if marks.getD i false then
        (r.edges i).foldl (fun m j => m.set j true) marks
      else marks
    reachSweep r i marks'

def reach (r : Repo) (roots : List Nat) : List Bool :=
  let init := roots.foldl (fun m j => m.set j true) (List.replicate r.length false)
  reachSweep r r.length init

def reachList (r : Repo) (roots : List Nat) : List Nat :=
  (List.range r.length).filter (fun i => (reach r roots).getD i false)

/-! ### tree expansion over `Nat` -/

/-- the seven checkout quantities of a tree's full recursive expansion -/
structure TN where
  depth : Nat
  len : Nat
  trees : Nat
  blobs : Nat
  bsize : Nat
  links : Nat
  subs : Nat
deriving Repr, DecidableEq

def TN.op (a b : TN) : TN :=
  ⟨max a.depth b.depth, max a.len b.len, a.trees + b.trees, a.blobs + b.blobs, a.bsize + b.bsize,
   a.links + b.links, a.subs + b.subs⟩
def TN.unit : TN := ⟨0, 0, 0, 0, 0, 0, 0⟩
/-- contribution of a subtree entry named with `nm` bytes whose expansion is `s` -/
def TN.desc (nm : Nat) (s : TN) : TN :=
  ⟨s.depth + 1, if s.len > 0 then nm + 1 + s.len else nm, s.trees, s.blobs, s.bsize, s.links, s.subs⟩

/-- the tree itself (one directory) plus its non-tree entries -/
def baseN (r : Repo) (blobSz : Nat → Nat) (t : Nat) : TN :=
  (r.entries t).foldl (fun acc e =>
    match e.kind with
    | .tree => acc
    | .blob => acc.op ⟨1, e.name.length, 0, 1, blobSz e.oid, 0, 0⟩
    | .symlink => acc.op ⟨1, e.name.length, 0, 0, 0, 1, 0⟩
    | .gitlink => acc.op ⟨1, e.name.length, 0, 0, 0, 0, 1⟩) ⟨0, 0, 1, 0, 0, 0, 0⟩

def treeKids (r : Repo) (t : Nat) : List (Nat × Nat) :=
  (r.entries t).filterMap (fun e => if e.kind = .tree then some (e.name.length, e.oid) else none)

/-- the aggregator parameters over true values -/
def PN (r : Repo) : Agg.Params TN :=
  ⟨TN.op, TN.unit, TN.desc, baseN r (fun b => r.blobSize b), treeKids r⟩

/-- bottom-up table of any aggregator's expansion: entry `t` = base t ⊔ ⨆ desc (table[child]) -/
def expandTable {α : Type} (P : Agg.Params α) (n : Nat) : List α :=
  (List.range n).foldl (fun tbl t =>
    tbl ++ [(P.kids t).foldl (fun s e => P.op s (P.desc e.1 (tbl.getD e.2 P.unit))) (P.base t)]) []

/-! ### history depth, tag depth -/

/-- depth table: commits get 1 + max over parents; other objects 0 -/
def depthTable (r : Repo) : List Nat :=
  (List.range r.length).foldl (fun tbl i =>
    tbl ++ [match r.obj i with
      | some (.commit _ _ ps) => 1 + (ps.foldl (fun m p => max m (tbl.getD p 0)) 0)
      | _ => 0]) []

def tagDepthTable (r : Repo) : List Nat :=
  (List.range r.length).foldl (fun tbl i =>
    tbl ++ [match r.obj i with
      | some (.tag _ o isTag) => 1 + (if isTag then tbl.getD o 0 else 0)
      | _ => 0]) []

/-! ### census -/

structure Census where
  commits : Nat := 0
  commitSize : Nat := 0
  maxCommitSize : Nat := 0
  maxParents : Nat := 0
  maxDepth : Nat := 0
  trees : Nat := 0
  treeSize : Nat := 0
  treeEntries : Nat := 0
  maxTreeEntries : Nat := 0
  blobs : Nat := 0
  blobSize : Nat := 0
  maxBlobSize : Nat := 0
  tags : Nat := 0
  maxTagDepth : Nat := 0
  maxTN : TN := TN.unit      -- each dimension maximised independently (trees: max, not sum)
deriving Repr

def TN.maxEach (a b : TN) : TN :=
  ⟨max a.depth b.depth, max a.len b.len, max a.trees b.trees, max a.blobs b.blobs, max a.bsize b.bsize,
   max a.links b.links, max a.subs b.subs⟩

/-- census over a set of objects `D` (a list of distinct ids) -/
def census (r : Repo) (D : List Nat) : Census :=
  let tn := expandTable (PN r) r.length
  let dt := depthTable r
  let tt := tagDepthTable r
  D.foldl (fun c i =>
    match r.obj i with
    | some (.blob s) => { c with blobs := c.blobs + 1, blobSize := c.blobSize + s, maxBlobSize := max c.maxBlobSize s }
    | some (.tree s es) => { c with trees := c.trees + 1, treeSize := c.treeSize + s, treeEntries := c.treeEntries + es.length,
                                     maxTreeEntries := max c.maxTreeEntries es.length,
                                     maxTN := c.maxTN.maxEach (tn.getD i TN.unit) }
    | some (.commit s _ ps) => { c with commits := c.commits + 1, commitSize := c.commitSize + s, maxCommitSize := max c.maxCommitSize s,
                                        maxParents := max c.maxParents ps.length, maxDepth := max c.maxDepth (dt.getD i 0) }
    | some (.tag _ _ _) => { c with tags := c.tags + 1, maxTagDepth := max c.maxTagDepth (tt.getD i 0) }
    | none => c) {}

end GitSizer.Spec
