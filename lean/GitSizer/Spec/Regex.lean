import GitSizer.Basic.Bytes
/-! # What it means for a regular expression to match a whole reference name

The reference filters of git-sizer hand `"^(?:" + p + ")$"` to Go's `regexp`; the property (C06) says
"a /REGEXP/ must match the entire reference name". This file gives that sentence a meaning that does
not depend on any matcher: `Den r pre m post` — in the subject string `pre ++ m ++ post`, the
expression `r` matches exactly the middle part `m` — for the fragment of RE2 syntax that
`Model/Regex.parse` reads (literals, `.`, classes, `^`, `$`, grouping, alternation, `*`, `+`, `?`,
a leading `(?i)`). `^` and `$` are zero-width and look at the context, as in RE2 without the `m` flag.
`FullMatch r w := Den r [] w []`. -/
namespace GitSizer.Regex

inductive Re where
  | none                                           -- matches nothing
  | eps                                            -- the empty string
  | cls (neg : Bool) (ranges : List (UInt8 × UInt8))  -- one byte inside (outside) the ranges
  | bol                                            -- `^`
  | eol                                            -- `$`
  | seq (a b : Re)
  | alt (a b : Re)
  | star (a : Re)
deriving Repr, DecidableEq, Inhabited

def inCls (neg : Bool) (ranges : List (UInt8 × UInt8)) (c : UInt8) : Bool :=
  neg != ranges.any (fun r => r.1 ≤ c && c ≤ r.2)

inductive Den : Re → Bytes → Bytes → Bytes → Prop where
  | eps (pre post : Bytes) : Den .eps pre [] post
  | cls {neg rs c} (pre post : Bytes) : inCls neg rs c = true → Den (.cls neg rs) pre [c] post
  | bol (post : Bytes) : Den .bol [] [] post
  | eol (pre : Bytes) : Den .eol pre [] []
  | seq {a b pre m1 m2 post} : Den a pre m1 (m2 ++ post) → Den b (pre ++ m1) m2 post → Den (.seq a b) pre (m1 ++ m2) post
  | altL {a b pre m post} : Den a pre m post → Den (.alt a b) pre m post
  | altR {a b pre m post} : Den b pre m post → Den (.alt a b) pre m post
  | starNil {a} (pre post : Bytes) : Den (.star a) pre [] post
  | starCons {a pre m1 m2 post} : Den a pre m1 (m2 ++ post) → Den (.star a) (pre ++ m1) m2 post → Den (.star a) pre (m1 ++ m2) post

/-- the expression matches the ENTIRE name -/
def FullMatch (r : Re) (w : Bytes) : Prop := Den r [] w []

/-- Go's `(*Regexp).MatchString` is a SEARCH: the expression matches somewhere in the subject -/
def Search (r : Re) (w : Bytes) : Prop := ∃ pre m post, w = pre ++ m ++ post ∧ Den r pre m post

end GitSizer.Regex
