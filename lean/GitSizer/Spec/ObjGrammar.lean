import GitSizer.Model.Parsers
/-! Serialisers: the grammar of tree, commit and tag objects that git writes (and
    `git hash-object` accepts), used to state the round-trip half of C16 and to judge the
    implementation on generated well-formed objects. -/
namespace GitSizer.Spec
open GitSizer GitSizer.Parsers

/-- canonical octal rendering of a mode (no leading zeros; "0" for 0) -/
def octDigits : Nat → Nat → List UInt8
  | 0, _ => []
  | fuel + 1, n => if n < 8 then [UInt8.ofNat (48 + n)] else octDigits fuel (n / 8) ++ [UInt8.ofNat (48 + n % 8)]
def octal (n : Nat) : Bytes := octDigits (n + 1) n

def serEntry (e : TreeEntry) : Bytes := octal e.mode ++ [32] ++ e.name ++ [0] ++ e.oid
def serTree (es : List TreeEntry) : Bytes := es.flatMap serEntry

/-- an entry git can store: mode < 2^32, name without NUL, 20-byte oid -/
def EntryOK (e : TreeEntry) : Prop := e.mode < 2 ^ 32 ∧ (0 : UInt8) ∉ e.name ∧ e.oid.length = 20

def hexDigit (n : Nat) : UInt8 := if n < 10 then UInt8.ofNat (48 + n) else UInt8.ofNat (87 + n)
def hexEncode : Bytes → Bytes
  | [] => []
  | b :: bs => hexDigit (b.toNat / 16) :: hexDigit (b.toNat % 16) :: hexEncode bs

/-- one line of a header block: `pre SP post LF`. A header `key value` is the line `⟨key, value⟩`; a
    multi-line header (gpgsig, mergetag) continues with lines whose `pre` is empty (they start with
    the space). -/
structure Line where
  pre : Bytes
  post : Bytes
deriving Repr

def Line.ser (l : Line) : Bytes := l.pre ++ 32 :: (l.post ++ [10])

/-- what git guarantees of a header line: no space or LF before the first space, no LF after it -/
def Line.OK (l : Line) : Prop := (32 : UInt8) ∉ l.pre ∧ (10 : UInt8) ∉ l.pre ∧ (10 : UInt8) ∉ l.post

def serLines (ls : List Line) : Bytes := ls.flatMap Line.ser

/-- what follows the header block: nothing, or a blank line and the message -/
def msgPart : Option Bytes → Bytes
  | none => []
  | some m => 10 :: m

/-- a commit object as git writes it: the tree line, the parent lines directly after it, then any
    other header lines (author, committer, encoding, gpgsig and mergetag with their continuation
    lines, and extra headers — which MAY be spelt `parent …` or `tree …`), then optionally a blank
    line and the message (any bytes) -/
structure CommitObj where
  tree : Bytes
  parents : List Bytes
  extra : List Line
  message : Option Bytes         -- `none`: no blank line at all
deriving Repr

def CommitObj.lines (c : CommitObj) : List Line :=
  ⟨kTree, hexEncode c.tree⟩ :: (c.parents.map (fun p => ⟨kParent, hexEncode p⟩) ++ c.extra)

def serCommit (c : CommitObj) : Bytes :=
  serLines c.lines ++ msgPart c.message

/-- well-formed: 20-byte ids, well-formed lines, and the first line after the parents is not
    itself spelt like a parent or a tree (it is `author` in every object git accepts) -/
structure CommitObj.OK (c : CommitObj) : Prop where
  tree : c.tree.length = 20
  parents : ∀ p ∈ c.parents, p.length = 20
  lines : ∀ l ∈ c.extra, l.OK
  first : ∀ l, c.extra.head? = some l → l.pre ≠ kParent ∧ l.pre ≠ kTree

structure TagObj where
  object : Bytes
  type : Bytes
  extra : List Line              -- tag, tagger, …, extra headers (which MAY be spelt `object …` / `type …`)
  message : Option Bytes
deriving Repr

def TagObj.lines (t : TagObj) : List Line := ⟨kObject, hexEncode t.object⟩ :: ⟨kType, t.type⟩ :: t.extra

def serTag (t : TagObj) : Bytes :=
  serLines t.lines ++ msgPart t.message

structure TagObj.OK (t : TagObj) : Prop where
  object : t.object.length = 20
  type : (10 : UInt8) ∉ t.type
  lines : ∀ l ∈ t.extra, l.OK
  first : ∀ l, t.extra.head? = some l → l.pre ≠ kObject ∧ l.pre ≠ kType

end GitSizer.Spec
