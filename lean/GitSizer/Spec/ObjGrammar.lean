import GitSizer.Model.Parsers
/-! Serialisers: the grammar of tree, commit and tag objects that git writes (and
    `git hash-object` accepts), used to state the round-trip half of C16 and to judge the
    implementation on generated well-formed objects. -/
namespace GitSizer.Spec
open GitSizer GitSizer.Parsers

/-- canonical octal rendering of a mode (no leading zeros; "0" for 0) -/
def octDigits : Nat → Nat → List UInt8
  | 0, _ => []
  | fuel + 1, n => if n < 8 then [UInt8.ofNat (48 + n)] else octDigits fuel (n / 8) ++ [UInt8.ofNat (48 + n % 8)]
def octal (n : Nat) : Bytes := octDigits (n + 1) n

def serEntry (e : TreeEntry) : Bytes := octal e.mode ++ [32] ++ e.name ++ [0] ++ e.oid
def serTree (es : List TreeEntry) : Bytes := es.flatMap serEntry

/-- an entry git can store: mode < 2^32, name without NUL, 20-byte oid -/
def EntryOK (e : TreeEntry) : Prop := e.mode < 2 ^ 32 ∧ (0 : UInt8) ∉ e.name ∧ e.oid.length = 20

def hexDigit (n : Nat) : UInt8 := if n < 10 then UInt8.ofNat (48 + n) else UInt8.ofNat (87 + n)
def hexEncode : Bytes → Bytes
  | [] => []
  | b :: bs => hexDigit (b.toNat / 16) :: hexDigit (b.toNat % 16) :: hexEncode bs

/-- one header line `key SP value LF`; a multi-line value is written with LF SP continuation -/
def serHeader (k v : Bytes) : Bytes := k ++ [32] ++ v ++ [10]

structure CommitObj where
  tree : Bytes
  parents : List Bytes
  extra : List (Bytes × Bytes)   -- author, committer, encoding, gpgsig, mergetag, … (values may contain "\n ")
  message : Option Bytes         -- `none`: no blank line at all
deriving Repr

def serCommit (c : CommitObj) : Bytes :=
  serHeader kTree (hexEncode c.tree) ++ c.parents.flatMap (fun p => serHeader kParent (hexEncode p)) ++
  c.extra.flatMap (fun kv => serHeader kv.1 kv.2) ++
  (match c.message with | none => [] | some m => [10] ++ m)

structure TagObj where
  object : Bytes
  type : Bytes
  extra : List (Bytes × Bytes)   -- tag, tagger, …
  message : Option Bytes
deriving Repr

def serTag (t : TagObj) : Bytes :=
  serHeader kObject (hexEncode t.object) ++ serHeader kType t.type ++
  t.extra.flatMap (fun kv => serHeader kv.1 kv.2) ++
  (match t.message with | none => [] | some m => [10] ++ m)

end GitSizer.Spec
