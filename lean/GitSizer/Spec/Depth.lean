import GitSizer.Spec.Repo
/-! History depth and tag depth as longest chains (C03). -/
namespace GitSizer.Spec
open GitSizer

def Repo.parents (r : Repo) (c : Nat) : List Nat :=
  match r.obj c with
  | some (.commit _ _ ps) => ps
  | _ => []

def Repo.isCommit (r : Repo) (c : Nat) : Bool :=
  match r.obj c with
  | some (.commit _ _ _) => true
  | _ => false

def maxList (l : List Nat) : Nat := l.foldl max 0

/-- number of commits on the longest parent chain starting at `c` (0 for a non-commit) -/
def depthF (r : Repo) : Nat → Nat → Nat
  | 0, _ => 0
  | f + 1, c => if r.isCommit c then 1 + maxList ((r.parents c).map (depthF r f)) else 0

def depthN (r : Repo) (c : Nat) : Nat := depthF r (c + 1) c

/-- commits point to commits with smaller indices -/
def CommitsWF (r : Repo) : Prop := ∀ c, ∀ p ∈ r.parents c, p < c ∧ r.isCommit p = true

/-- a parent chain: each element is a parent of the previous one -/
def IsChain (r : Repo) : List Nat → Prop
  | [] => True
  | [c] => r.isCommit c = true
  | c :: d :: rest => r.isCommit c = true ∧ d ∈ r.parents c ∧ IsChain r (d :: rest)

/-- tag depth: number of tag objects on the chain tag → tag → … -/
def Repo.tagRef (r : Repo) (t : Nat) : Option (Nat × Bool) :=
  match r.obj t with
  | some (.tag _ o isTag) => some (o, isTag)
  | _ => none

def tagDepthF (r : Repo) : Nat → Nat → Nat
  | 0, _ => 0
  | f + 1, t =>
    match r.tagRef t with
    | some (o, true) => 1 + tagDepthF r f o
    | some (_, false) => 1
    | none => 0

def tagDepthN (r : Repo) (t : Nat) : Nat := tagDepthF r (t + 1) t

end GitSizer.Spec
