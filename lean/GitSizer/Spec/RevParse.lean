import GitSizer.Spec.Repo
import GitSizer.Model.PathResolver
/-! The fragment of git's revision syntax that git-sizer's object descriptions use, as a
    specification: `<rev>`, `<rev>^{<type>}`, `<rev>:<path>`, where everything that is neither a
    top-level ':' split nor a `^{blob|tree|commit|tag}` suffix is an ATOMIC revision resolved by git
    itself (`atom`: reference names, object ids, `HEAD~3`, `v1^{}`, ...). The scan for the ':' is
    git's (`get_oid_with_context_1`: the first ':' outside `{...}`), peeling follows tags and a
    commit's tree, and the path is walked component by component through tree entries of any kind.
    Validated against the real `git rev-parse --verify` by the `revspec` engine. -/
namespace GitSizer.Spec
open GitSizer GitSizer.PathRes

/-- git's scan for the `<rev>:<path>` separator: split at the first ':' at brace depth 0 -/
def splitTop : Nat → Bytes → Option (Bytes × Bytes)
  | _, [] => none
  | depth, c :: cs =>
    if c = lbrace then (splitTop (depth + 1) cs).map (fun rp => (c :: rp.1, rp.2))
    else if c = rbrace ∧ depth > 0 then (splitTop (depth - 1) cs).map (fun rp => (c :: rp.1, rp.2))
    else if c = colon ∧ depth = 0 then some ([], cs)
    else (splitTop depth cs).map (fun rp => (c :: rp.1, rp.2))

/-- brace depth after scanning `s` from depth `d` -/
def endDepth : Nat → Bytes → Nat
  | d, [] => d
  | d, c :: cs =>
    if c = lbrace then endDepth (d + 1) cs
    else if c = rbrace ∧ d > 0 then endDepth (d - 1) cs
    else endDepth d cs

def kindOf (r : Repo) (o : Nat) : Option OType :=
  match r.obj o with
  | some (.blob _) => some .blob
  | some (.tree _ _) => some .tree
  | some (.commit _ _ _) => some .commit
  | some (.tag _ _ _) => some .tag
  | none => none

/-- `<obj>^{<type>}`: dereference tags (and a commit to its tree) until the type matches -/
def peelTo (r : Repo) (ty : OType) : Nat → Nat → Option Nat
  | 0, _ => none
  | fuel + 1, o =>
    if kindOf r o = some ty then some o else
    match r.obj o with
    | some (.tag _ t _) => peelTo r ty fuel t
    | some (.commit _ t _) => if ty = .tree then peelTo r ty fuel t else none
    | _ => none

/-- what follows a "^{": git compares only the BEGINNING of the rest with "commit}", "tree}",
    "blob}", "tag}" (`peel_onion` uses `starts_with`), so `X^{tree}:a/b}` is read as `X^{tree}` -/
inductive PeelKind where
  | ty (t : OType)
  | nonTag          -- "^{}"
  | object          -- "^{object}"
deriving Repr, DecidableEq

def peelKind (rest : Bytes) : Option PeelKind :=
  if Bytes.hasPrefix rest [99, 111, 109, 109, 105, 116, 125] then some (.ty .commit)
  else if Bytes.hasPrefix rest [116, 114, 101, 101, 125] then some (.ty .tree)
  else if Bytes.hasPrefix rest [98, 108, 111, 98, 125] then some (.ty .blob)
  else if Bytes.hasPrefix rest [116, 97, 103, 125] then some (.ty .tag)
  else if Bytes.hasPrefix rest [111, 98, 106, 101, 99, 116, 125] then some .object
  else if Bytes.hasPrefix rest [125] then some .nonTag
  else none

/-- index of the LAST "^{" of `s` (git scans backwards from the end) -/
def lastPeelAux : Bytes → Nat → Option Nat → Option Nat
  | [], _, best => best
  | [_], _, best => best
  | a :: b :: rest, i, best =>
    lastPeelAux (b :: rest) (i + 1) (if a = caret ∧ b = lbrace then some i else best)
def lastPeel (s : Bytes) : Option Nat := lastPeelAux s 0 none

def derefTags (r : Repo) : Nat → Nat → Option Nat
  | 0, _ => none
  | fuel + 1, o =>
    match r.obj o with
    | some (.tag _ t _) => derefTags r fuel t
    | some _ => some o
    | none => none

def applyPeel (r : Repo) (k : PeelKind) (o : Nat) : Option Nat :=
  match k with
  | .ty t => peelTo r t (o + 1) o
  | .nonTag => derefTags r (o + 1) o
  | .object => if (r.obj o).isSome then some o else none

/-- `get_oid_1`: a revision without path. A string ending in '}' whose last "^{" introduces a
    known type is peeled (if its front part resolves); everything else — and every failure of the
    peeling — is left to git's basic resolution of names and object ids (`atom`). -/
def evalRev (r : Repo) (atom : Bytes → Option Nat) : Nat → Bytes → Option Nat
  | 0, s => atom s
  | fuel + 1, s =>
    if s.getLast? = some rbrace then
      match lastPeel s with
      | some k =>
        match peelKind (s.drop (k + 2)) with
        | some pk =>
          match (evalRev r atom fuel (s.take k)).bind (applyPeel r pk) with
          | some o => some o
          | none => atom s
        | none => atom s
      | none => atom s
    else atom s

def lookupEntry (r : Repo) (t : Nat) (name : Bytes) : Option Nat :=
  ((r.entries t).find? (fun e => e.name == name)).map (·.oid)

def isTree (r : Repo) (o : Nat) : Bool := kindOf r o == some .tree

/-- walk a non-empty '/'-separated path from tree `cur`; `acc` is the component read so far.
    git rejects empty components (a leading or doubled '/'), except for ONE trailing '/' after a
    component that names a tree. -/
def walkC (r : Repo) : Nat → Bytes → Bytes → Option Nat
  | cur, acc, [] => if acc = [] then none else lookupEntry r cur acc
  | cur, acc, c :: cs =>
    if c = slash then
      (if acc = [] then none
       else match lookupEntry r cur acc with
         | some n => if cs = [] then (if isTree r n then some n else none) else walkC r n [] cs
         | none => none)
    else walkC r cur (acc ++ [c]) cs

/-- `<tree>:<path>`; the empty path is the tree itself -/
def walkPath (r : Repo) (t : Nat) (p : Bytes) : Option Nat := if p = [] then some t else walkC r t [] p

/-- what `git rev-parse --verify <s>` denotes, for the fragment: git first tries the WHOLE string
    as a revision, and only then looks for the ':' that separates a revision from a path -/
def resolve (r : Repo) (atom : Bytes → Option Nat) (s : Bytes) : Option Nat :=
  match evalRev r atom s.length s with
  | some o => some o
  | none =>
    match splitTop 0 s with
    | none => none
    | some (rev, p) =>
      match evalRev r atom rev.length rev with
      | some o =>
        match peelTo r .tree (o + 1) o with
        | some t => walkPath r t p
        | none => none
      | none => none

end GitSizer.Spec
