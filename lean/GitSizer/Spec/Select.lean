import GitSizer.Model.RefFilter
/-! Specification of C06: last-matching-rule semantics and component-boundary prefixes. -/
namespace GitSizer.Spec
open GitSizer GitSizer.RefFilter

variable {π : Type} (m : π → Bytes → Bool)

/-- polarity of the last option whose pattern matches `r`, if any -/
def lastMatch (opts : List (Opt π)) (r : Bytes) : Option Bool :=
  opts.foldl (fun acc o => if m o.pat r then some o.incl else acc) none

/-- all references when there is no option (and no ROOT: `defaultAll`), none when only ROOTs are
    given; otherwise the polarity of the last matching option, else the opposite of the first
    option's polarity -/
def selectedSpec (opts : List (Opt π)) (defaultAll : Bool) (r : Bytes) : Bool :=
  match opts with
  | [] => defaultAll
  | o :: _ => (lastMatch m opts r).getD (!o.incl)

/-- a PREFIX matches only at a '/' component boundary -/
def PrefixSpec (pfx refname : Bytes) : Prop :=
  (pfx.getLast? = some 47 ∧ ∃ rest, refname = pfx ++ rest) ∨
  (pfx.getLast? ≠ some 47 ∧ (refname = pfx ∨ ∃ rest, refname = pfx ++ 47 :: rest))

end GitSizer.Spec
