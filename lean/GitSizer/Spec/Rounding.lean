import GitSizer.Model.Human
/-! Specification of C12 as decidable checks on a rendering (numeral, unit string) of a value:
    prefix = largest multiplier not exceeding the value; exact below the first prefix; at least
    three significant digits with a prefix; numeral at most five characters; within half a unit
    of the last displayed digit; magnitudes ordered. All in exact integer arithmetic. -/
namespace GitSizer.Spec
open GitSizer.Human

/-- a parsed rendering: numeral = m / 10^d, multiplier `mult`, `digits` = number of digit
    characters, `chars` = length of the numeral, `pname` the prefix name -/
structure Rendering where
  m : Nat
  d : Nat
  mult : Nat
  digits : Nat
  chars : Nat
  pname : String
deriving Repr

def parseNumeral (s : String) : Option (Nat × Nat × Nat) :=
  if s.isEmpty then none else
  match (s.splitOn ".").map String.toList with
  | [ip] => if ip.all Char.isDigit ∧ !ip.isEmpty then some ((String.ofList ip).toNat!, 0, ip.length) else none
  | [ip, fp] =>
    if ip.all Char.isDigit ∧ fp.all Char.isDigit ∧ !ip.isEmpty ∧ !fp.isEmpty then
      some ((String.ofList (ip ++ fp)).toNat!, fp.length, ip.length + fp.length) else none
  | _ => none

def parseRendering (pfx : List Prefix) (unit numeral unitStr : String) : Option Rendering := do
  let (m, d, digits) ← parseNumeral numeral
  let pname ← if unitStr.endsWith unit then some (unitStr.dropEnd unit.length).toString else none
  let p ← pfx.find? (fun p => p.1 == pname)
  pure ⟨m, d, p.2, digits, numeral.length, pname⟩

/-- the largest multiplier not exceeding n (the first one if none does) -/
def bestMult (pfx : List Prefix) (n : Nat) : Nat :=
  pfx.foldl (fun acc p => if p.2 ≤ n ∧ p.2 ≥ acc then p.2 else acc) ((pfx.headD ("", 1)).2)

inductive Check where
  | ok
  | halfUnitOnly (excess : Nat)   -- every clause holds except the half-unit bound, by `excess`/(2·10^d) units·mult
  | bad (why : String)

/-- |m·mult − n·10^d| · 2 ≤ mult  ⇔  |numeral·mult − n| ≤ half a unit (unit = mult/10^d) -/
def halfUnitExcess (n : Nat) (r : Rendering) : Nat :=
  let a := r.m * r.mult
  let b := n * 10 ^ r.d
  let diff := if a ≥ b then a - b else b - a
  2 * diff - r.mult   -- truncated subtraction: 0 iff within half a unit

def checkRendering (pfx : List Prefix) (n : Nat) (r : Rendering) : Check :=
  if r.mult ≠ bestMult pfx n then .bad s!"prefix '{r.pname}' is not the largest one not exceeding the value"
  else if r.mult = 1 then
    (if r.d = 0 ∧ r.m = n then .ok else .bad "a value below the first prefix is not printed exactly")
  else if r.digits < 3 then .bad "fewer than three significant digits"
  else if r.chars > 5 then .bad "numeral longer than five characters"
  else
    let e := halfUnitExcess n r
    if e = 0 then .ok else .halfUnitOnly e

/-- magnitude order of two renderings, cross-multiplied -/
def magLe (a b : Rendering) : Bool :=
  a.m * a.mult * 10 ^ b.d ≤ b.m * b.mult * 10 ^ a.d

end GitSizer.Spec
