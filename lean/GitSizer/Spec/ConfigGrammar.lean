import GitSizer.Model.Config
/-! What `git config --list -z` prints (contract `config_list_z`): per entry the key, then — only
    if the entry has a value — LF and the value, then NUL. And what "honoured with its exact value"
    means: the NUL-first reading of that listing. -/
namespace GitSizer.Spec
open GitSizer GitSizer.Config

structure CfgEntry where
  key : Bytes
  value : Option Bytes      -- `none`: a key without a value (`[foo] bar`)
deriving Repr, DecidableEq

def CfgEntry.ok (e : CfgEntry) : Prop := NUL ∉ e.key ∧ LF ∉ e.key ∧ (∀ v, e.value = some v → NUL ∉ v)

def ser1 (e : CfgEntry) : Bytes :=
  e.key ++ (match e.value with | none => [] | some v => LF :: v) ++ [NUL]
def serListing (es : List CfgEntry) : Bytes := es.flatMap ser1

def norm (e : CfgEntry) : Bytes × Bytes := (e.key, e.value.getD [])

/-- reference reading of a listing: records end at NUL; inside a record the key ends at the
    first LF, if there is one -/
def parseRef : (fuel : Nat) → Bytes → Option (List (Bytes × Bytes))
  | _, [] => some []
  | 0, _ => none
  | f+1, out =>
    match splitFirst NUL out with
    | none => none
    | some (record, rest) =>
      let kv := match splitFirst LF record with
        | some (k, v) => (k, v)
        | none => (record, [])
      match parseRef f rest with
      | some l => some (kv :: l)
      | none => none

/-- component-boundary prefix relation on keys: the specification of `configKeyMatchesPrefix` -/
def KeyUnder (key pfx rest : Bytes) : Prop :=
  pfx = [] ∧ rest = key ∨
  (pfx ≠ [] ∧ pfx.getLast? = some DOT ∧ key = pfx ++ rest) ∨
  (pfx ≠ [] ∧ pfx.getLast? ≠ some DOT ∧ (key = pfx ∧ rest = [] ∨ key = pfx ++ DOT :: rest))

/-- the entries `GetConfig(prefix)` must return for a listing -/
def expectedConfig (listing pfx : Bytes) : Option (List (Bytes × Bytes)) :=
  (parseRef (listing.length + 1) listing).map fun recs =>
    recs.filterMap fun (k, v) =>
      let (ok, rest) := keyMatchesPrefix k pfx
      if ok then some (rest, v) else none

end GitSizer.Spec
