import GitSizer.Model.RefGroups
import GitSizer.Spec.Select
/-! Specification of C07 (and of `@REFGROUP` in C06): declarative group membership over the
    refgroup forest. -/
namespace GitSizer.Spec
open GitSizer GitSizer.RefFilter GitSizer.RefGroups

mutual
/-- the reference satisfies the group's own rules; a group without rules is the union of its
    subgroups -/
def own (ev : F Pat0 → Bool) : GTree → Bool
  | .node _ _ filter kids =>
    match filter with
    | some f => ev f
    | none => ownAny ev kids
def ownAny (ev : F Pat0 → Bool) : List GTree → Bool
  | [] => false
  | t :: ts => own ev t || ownAny ev ts
end

mutual
/-- symbols under which a traversed reference is tallied inside the subtree `t`, given that all
    proper ancestors' rules are satisfied iff `anc` -/
def members (ev : F Pat0 → Bool) (anc : Bool) : GTree → List Bytes
  | .node sym name filter kids =>
    let me := anc && own ev (.node sym name filter kids)
    let rulesOK := match filter with | some f => ev f | none => true
    let below := membersList ev (anc && rulesOK) kids
    (if me then [sym] else []) ++ below ++
      (if me && filter.isSome && !kids.isEmpty && !ownAny ev kids then [otherSymbol sym] else [])
def membersList (ev : F Pat0 → Bool) (anc : Bool) : List GTree → List Bytes
  | [] => []
  | t :: ts => members ev anc t ++ membersList ev anc ts
end

/-- `@G` as a pattern: all proper ancestors (below the top level) and the group itself -/
def groupMember (ev : F Pat0 → Bool) (st : Store) (sym : Bytes) : Bool :=
  passes ev (sym.length + 2) st (parentName sym) && own ev (mkTree (st.length + 1) st sym)

/-- the entries that define group `sym`: exactly the keys `refgroup.<sym>.<field>` -/
def lookupExact : Lookup := fun all sym =>
  let pfx := Bytes.ofString "refgroup." ++ sym ++ [46]
  all.filterMap fun (k, v) =>
    if Bytes.hasPrefix k pfx && !((k.drop pfx.length).contains 46) then some (k.drop pfx.length, v) else none

/-- what `Categorize` must return, up to the order of the symbols -/
def categorizeSpec (env : Env) (st : Store) (opts : List (Opt Pat)) (defaultAll : Bool) (r : Bytes) : Cat :=
  let ev := fun (f : F Pat0) => f.eval (m0 env) r
  let mS : Pat → Bytes → Bool := fun p r => match p with
    | .base b => m0 env b r
    | .grp sym => groupMember (fun (f : F Pat0) => f.eval (m0 env) r) st sym
  if !selectedSpec mS opts defaultAll r then ⟨false, [ignoredSymbol]⟩ else
  match toTree st with
  | .node sym _ _ kids =>
    let below := membersList ev true kids
    ⟨true, sym :: below ++ (if !kids.isEmpty && !ownAny ev kids then [otherSymbol sym] else [])⟩

end GitSizer.Spec
