import GitSizer.Basic.Bytes
/-! Common plumbing of the model driver `gsmodel` (line protocol, verdicts). -/
namespace GitSizer.Driver
open GitSizer

/-- verdict for one case:
  * `ok`    – model and implementation agree and the observed result satisfies the property;
  * `diff`  – model and implementation disagree, but the observed result was not shown to
              violate the property (correspondence broken, no failing input);
  * `viol`  – the observed result violates the property's specification on this input;
  * `known` – as `viol`, but inside a class recorded in known_findings.json;
  * `bad`   – the line could not be decoded (harness error). -/
inductive Verdict where
  | ok (note : String := "")
  | diff (model : String) (why : String := "")
  | viol (props : String) (why : String)   -- props: comma-separated ids of the properties violated
  | known (id : String) (why : String)
  | bad (why : String)

def Verdict.render : Verdict → String
  | .ok n => if n.isEmpty then "ok" else s!"ok\t{n}"
  | .diff m w => s!"diff\tmodel={m}\t{w}"
  | .viol p w => s!"viol\t{p}\t{w}"
  | .known i w => s!"known\t{i}\t{w}"
  | .bad w => s!"bad\t{w}"

abbrev Engine := List String → List String → Verdict

def hexS (s : String) : String := Bytes.toHex (Bytes.ofString s)

def getNat (s : String) : Option Nat := s.toNat?

/-- compare the model's result fields with the observed ones -/
def agree (model obs : List String) : Bool := model == obs

def joinTab (l : List String) : String := "\t".intercalate l

end GitSizer.Driver
