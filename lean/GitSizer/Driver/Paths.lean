import GitSizer.Driver.Graph
import GitSizer.Spec.RevParse
import GitSizer.Proofs.PathRes.Ops
/-! Engine `paths`: the real `InOrderPathResolver` driven with operation sequences consistent
    with a generated repository, against `Model/PathResolver`; every printed description is
    judged by `Spec.resolve` (must denote exactly the cited object). -/
namespace GitSizer.Driver
open GitSizer GitSizer.Spec GitSizer.PathRes

def hexDigitB (n : Nat) : UInt8 := if n < 10 then UInt8.ofNat (48 + n) else UInt8.ofNat (87 + n)

def hexDigits : Nat → Nat → Bytes
  | 0, _ => []
  | k + 1, n => hexDigits k (n / 16) ++ [hexDigitB (n % 16)]

/-- the harness' object id of repository index i: 40 hex digits of i+1 -/
def hexOid (i : Nat) : Bytes := hexDigits 40 (i + 1)

def parseHexOid (s : Bytes) : Option Nat :=
  if s.length ≠ 40 then none else
  (s.foldl (fun acc c => acc.bind (fun a => (Go.hexNibble c).map (fun d => a * 16 + d))) (some 0)).bind
    (fun v => if v = 0 then none else some (v - 1))

inductive POp where
  | req (oid : Nat) (ty : OType)
  | forget (h : Nat)
  | name (nm : Bytes) (oid : Nat)
  | entry (tree : Nat) (nm : Bytes) (child : Nat)
  | commit (c t : Nat)

def parseTy (s : String) : Option OType :=
  if s == "b" then some .blob else if s == "t" then some .tree else if s == "c" then some .commit
  else if s == "g" then some .tag else none

def parsePOp (s : String) : Option POp :=
  let k := s.take 1
  let f := ((s.drop 1).toString).splitOn ":"
  if k == "R" then match f with
    | [o, t] => do pure (.req (← o.toNat?) (← parseTy t))
    | _ => none
  else if k == "F" then match f with
    | [h] => h.toNat?.map POp.forget
    | _ => none
  else if k == "N" then match f with
    | [n, o] => do pure (.name (← Bytes.ofHex n) (← o.toNat?))
    | _ => none
  else if k == "E" then match f with
    | [t, n, c] => do pure (.entry (← t.toNat?) (← Bytes.ofHex n) (← c.toNat?))
    | _ => none
  else if k == "C" then match f with
    | [c, t] => do pure (.commit (← c.toNat?) (← t.toNat?))
    | _ => none
  else none

def parseKV (s : String) : Option (Bytes × Nat) :=
  match s.splitOn "=" with
  | [n, o] => do pure (← Bytes.ofHex n, ← o.toNat?)
  | _ => none

def parseKVs (s : String) : Option (List (Bytes × Nat)) :=
  if s == "-" then some [] else (s.splitOn ",").mapM parseKV

structure PRun where
  st : State
  handles : List Nat      -- handle ↦ arena index
  forgotten : List Nat

def stepP (run : Res PRun) (op : POp) : Res PRun := do
  let r ← run
  match op with
  | .req o ty =>
    let (st, i) := requestPath r.st o ty
    pure { r with st := st, handles := r.handles ++ [i] }
  | .forget h =>
    match r.handles[h]? with
    | none => pure r
    | some i =>
      let st ← forgetPath (r.st.arena.length + 1) r.st i
      pure { r with st := st, forgotten := h :: r.forgotten }
  | .name nm o => pure { r with st := recordName r.st nm o }
  | .entry t nm c => do
    let st ← recordTreeEntry r.st t nm c
    pure { r with st := st }
  | .commit c t => do
    let st ← recordCommit r.st c t
    pure { r with st := st }

/-- the operation as the theorem `descriptions_resolve` sees it (a forget needs no hypothesis) -/
def POp.toSpec : POp → Spec.Op
  | .req o ty => .request o ty
  | .forget h => .forget h
  | .name nm o => .name nm o
  | .entry t nm c => .entry t nm c
  | .commit c t => .commit c t

def atomOf (atoms : List (Bytes × Nat)) (s : Bytes) : Option Nat :=
  match atoms.find? (·.1 == s) with
  | some kv => some kv.2
  | none => parseHexOid s

/-- split "<40 hex> (<desc>)" -/
def splitDescription (s : Bytes) : Option (Bytes × Bytes) :=
  if s.length = 40 then some (s, [])
  else if s.length ≥ 43 ∧ (s.drop 40).take 2 = [32, 40] ∧ s.getLast? = some 41 then
    some (s.take 40, (s.drop 42).take (s.length - 43))
  else none

def pathsEngine : Engine := fun inp obs =>
  match inp, obs with
  | _, ["timeout"] => .viol "C05,C08" "the path resolver did not finish this small operation sequence within 60 s: building a description takes time that grows exponentially with the depth of the object"
  | _, ["skipped"] => .ok "trivial"
  | [repoS, atomsS, namesS, opsS], [resS] =>
    match parseRepo repoS, parseKVs atomsS, parseKVs namesS,
          (if opsS == "-" then some [] else (opsS.splitOn ",").mapM parsePOp) with
    | some repo, some atoms, some names, some ops =>
      let atom := atomOf atoms
      -- the harness' own claim about what each root name denotes is checked against the spec
      match names.find? (fun kv => resolve repo atom kv.1 != some kv.2) with
      | some kv => .bad s!"harness: name {Bytes.toHex kv.1} does not denote object {kv.2} in the specification"
      | none =>
      let run := ops.foldl stepP (.ok ⟨State.empty, [], []⟩)
      match run with
      | .panic c => if resS == "panic" then .ok "trivial panic" else .diff s!"panic {c}" "the model panics, the implementation does not"
      | .err c => .bad s!"model error {c}"
      | .ok r =>
        if resS == "panic" then .viol "C08" "the path resolver panics on an operation sequence that is consistent with the repository" else
        let live := (List.range r.handles.length).filter (fun h => !r.forgotten.contains h)
        let modelStrs := live.map (fun h => s!"{h}={Bytes.toHex (pathString hexOid r.st (r.handles.getD h 0))}")
        let modelS := if modelStrs.isEmpty then "-" else ",".intercalate modelStrs
        -- judge every observed description
        let obsL := if resS == "-" then [] else resS.splitOn ","
        let bad := obsL.filterMap (fun kv =>
          match kv.splitOn "=" with
          | [h, sx] =>
            match Bytes.ofHex sx with
            | none => some s!"handle {h}: undecodable"
            | some s =>
              match splitDescription s with
              | none => some s!"handle {h}: not of the form '<oid> (<description>)': {sx}"
              | some (ox, desc) =>
                match parseHexOid ox with
                | none => some s!"handle {h}: bad object id"
                | some o =>
                  if desc.isEmpty then none
                  else if resolve repo atom desc == some o then none
                  else some s!"description '{Bytes.toStringLossy desc}' (hex {Bytes.toHex desc}) of object {o} denotes {repr (resolve repo atom desc)} in git's revision syntax"
          | _ => some "malformed result")
        match bad with
        | w :: _ => .viol "C08" w
        | [] =>
          if modelS == resS then
            (if obsL.any (fun kv => kv.length > 50) then
              -- `thm`: every operation meets the hypothesis `OpOK` of `C08.descriptions_resolve` (decided here)
              .ok (if ops.all (fun op => decide (OpOK ⟨repo, atom, hexOid⟩ op.toSpec)) then "thm" else "")
             else .ok "trivial")
          else .diff modelS "descriptions differ between model and implementation"
    | _, _, _, _ => .bad "undecodable input"
  | _, _ => .bad "arity"


/-! Engine `revspec`: `Spec.resolve` against the real `git rev-parse --verify`. -/

def parseSeg (s : String) : Option Bytes :=
  if s.startsWith "o" then ((s.drop 1).toString.toNat?).map hexOid
  else if s.startsWith "r" then Bytes.ofHex (s.drop 1).toString
  else none

def parseExpr (s : String) : Option Bytes := ((s.splitOn "+").mapM parseSeg).map List.flatten

def parseRefKV (s : String) : Option (Bytes × Nat) :=
  match s.splitOn "=" with
  | [n, o] => o.toNat?.map (fun i => (Bytes.ofString n, i))
  | _ => none

def revspecEngine : Engine := fun inp obs =>
  match inp, obs with
  | [repoS, _, refsS, exprsS], ["ran", resS] =>
    match parseRepo repoS, (if refsS == "-" then some [] else (refsS.splitOn ",").mapM parseRefKV),
          (exprsS.splitOn ",").mapM parseExpr with
    | some repo, some refs, some exprs =>
      let atom := atomOf refs
      let model := exprs.map (fun e =>
        match resolve repo atom e with
        | some i => if i < repo.length then toString i else "o"
        | none => "-")
      let modelS := ",".intercalate model
      if modelS == resS then .ok
      else
        let pairs := (exprs.zip (model.zip (resS.splitOn ","))).filter (fun x => x.2.1 != x.2.2)
        match pairs with
        | (e, m, g) :: _ => .diff modelS s!"git rev-parse says {g}, the specification says {m} for '{Bytes.toStringLossy e}'"
        | [] => .diff modelS "length"
    | _, _, _ => .bad "undecodable input"
  | _, ["dup"] => .ok "trivial"
  | _, "setup-failed" :: _ => .ok "trivial"
  | _, _ => .bad "arity"

end GitSizer.Driver
