import GitSizer.Model.ScanCheck
import GitSizer.Driver.Common
import GitSizer.Model.Graph
/-! Engine `graph`: the real `sizes.Graph` driven through `RegisterBlob/Tree/Commit/Tag/Reference`
    with a generated repository and delivery schedule, against the model (`Model/Graph`) and the
    specification (`Spec/Repo`: census, maxima, expansion, depths over `Nat`, then `clamp`). -/
namespace GitSizer.Driver
open GitSizer GitSizer.Spec GitSizer.Graph

def parseEntry (s : String) : Option Entry :=
  match s.splitOn "/" with
  | [m, n, o] => do
    let mode ← m.toNat?
    let name ← Bytes.ofHex n
    -- gitlinks point outside the repository: index -1 is mapped to a huge index
    let oid := if o == "-1" then 1000000000 else o.toNat?.getD 1000000000
    pure ⟨mode, name, oid⟩
  | _ => none

def parseObj (s : String) : Option Obj :=
  match s.splitOn ":" with
  | ["b", sz] => sz.toNat?.map Obj.blob
  | ["t", sz, es] => do
    let size ← sz.toNat?
    let entries ← (if es == "-" then some [] else (es.splitOn ";").mapM parseEntry)
    pure (.tree size entries)
  | ["c", sz, t, ps, _pad] => do
    let size ← sz.toNat?
    let tree ← t.toNat?
    let parents ← (if ps == "-" then some [] else (ps.splitOn ".").mapM String.toNat?)
    pure (.commit size tree parents)
  | ["g", sz, r, k, _pad] => do
    let size ← sz.toNat?
    let ref ← r.toNat?
    pure (.tag size ref (k == "g"))
  | _ => none

def parseRepo (s : String) : Option Repo :=
  if s == "-" then some [] else (s.splitOn ",").mapM parseObj

def parseOp (s : String) : Option Op :=
  if s.startsWith "r:" then
    let rest := (s.drop 2).toString
    (if rest.isEmpty || rest == "-" then some [] else
      (rest.splitOn "/").mapM (fun x => if x == "~" then some [] else Bytes.ofHex x)).map Op.ref
  else
    let k := s.take 1
    match (s.drop 1).toString.toNat? with
    | none => none
    | some i =>
      if k == "b" then some (.blob i) else if k == "t" then some (.tree i)
      else if k == "c" then some (.commit i) else if k == "g" then some (.tag i) else none

def parseOps (s : String) : Option (List Op) :=
  if s == "-" then some [] else (s.splitOn ",").mapM parseOp

def opOid : Op → Option Nat
  | .blob o | .tree o | .commit o | .tag o => some o
  | .ref _ => none

/-- trees reachable from `t` through tree entries (linear: one downward sweep) -/
def treeClosure (r : Repo) (t : Nat) : List Nat :=
  let treesOnly : Repo := r.map fun o => match o with
    | .tree s es => .tree s (es.filter (fun e => e.kind == .tree))
    | o => o
  reachList treesOnly [t]

/-- the driver contract of `sizes.Graph` (`ValidSchedule`): every object exactly once, of the
    announced kind; blobs before the trees that hold them; a commit after all trees below its root
    tree and after its parents; trees and tags in any order -/
def validSchedule (r : Repo) (ops : List Op) : Bool :=
  let oids := ops.filterMap opOid
  oids.eraseDups.length == oids.length && oids.length == r.length && oids.all (· < r.length) &&
  (ops.zipIdx.all fun (op, pos) =>
    let before := (ops.take pos).filterMap opOid
    match op, (match op with | .ref _ => none | _ => r.obj ((opOid op).getD 0)) with
    | .blob _, some (.blob _) => true
    | .tree t, some (.tree _ _) =>
      (r.entries t).all (fun e => e.kind != .blob || before.contains e.oid)
    | .commit _, some (.commit _ tr ps) =>
      (treeClosure r tr).all before.contains && ps.all before.contains
    | .tag _, some (.tag _ _ _) => true
    | .ref _, _ => true
    | _, _ => false)

def fmtTS (s : Gen.TreeSize) : String :=
  s!"{s.MaxPathDepth.toNat}/{s.MaxPathLength.toNat}/{s.ExpandedTreeCount.toNat}/{s.ExpandedBlobCount.toNat}/{s.ExpandedBlobSize.toNat}/{s.ExpandedLinkCount.toNat}/{s.ExpandedSubmoduleCount.toNat}"

def fmtTN (s : TN) : String :=
  s!"{clamp c32 s.depth}/{clamp c32 s.len}/{clamp c32 s.trees}/{clamp c32 s.blobs}/{clamp c64 s.bsize}/{clamp c32 s.links}/{clamp c32 s.subs}"

def histNumbers (h : Gen.HistorySize) : List Nat :=
  [h.UniqueCommitCount.toNat, h.UniqueCommitSize.toNat, h.MaxCommitSize.toNat, h.MaxHistoryDepth.toNat, h.MaxParentCount.toNat,
   h.UniqueTreeCount.toNat, h.UniqueTreeSize.toNat, h.UniqueTreeEntries.toNat, h.MaxTreeEntries.toNat,
   h.UniqueBlobCount.toNat, h.UniqueBlobSize.toNat, h.MaxBlobSize.toNat,
   h.UniqueTagCount.toNat, h.MaxTagDepth.toNat, h.ReferenceCount.toNat,
   h.MaxPathDepth.toNat, h.MaxPathLength.toNat, h.MaxExpandedTreeCount.toNat, h.MaxExpandedBlobCount.toNat,
   h.MaxExpandedBlobSize.toNat, h.MaxExpandedLinkCount.toNat, h.MaxExpandedSubmoduleCount.toNat]

def histWitnesses (h : Gen.HistorySize) : List (Option Nat) :=
  [h.MaxCommitSizeCommit, h.MaxParentCountCommit, h.MaxTreeEntriesTree, h.MaxBlobSizeBlob, h.MaxTagDepthTag,
   h.MaxPathDepthTree, h.MaxPathLengthTree, h.MaxExpandedTreeCountTree, h.MaxExpandedBlobCountTree,
   h.MaxExpandedBlobSizeTree, h.MaxExpandedLinkCountTree, h.MaxExpandedSubmoduleCountTree]

def fieldNames : List String :=
  ["unique_commit_count", "unique_commit_size", "max_commit_size", "max_history_depth", "max_parent_count",
   "unique_tree_count", "unique_tree_size", "unique_tree_entries", "max_tree_entries",
   "unique_blob_count", "unique_blob_size", "max_blob_size", "unique_tag_count", "max_tag_depth", "reference_count",
   "max_path_depth", "max_path_length", "max_expanded_tree_count", "max_expanded_blob_count",
   "max_expanded_blob_size", "max_expanded_link_count", "max_expanded_submodule_count"]

/-- which property a numeric field belongs to -/
def fieldProp (i : Nat) : String :=
  if [0, 1, 5, 6, 7, 9, 10, 12].contains i then "C01,C05,C09"
  else if [2, 4, 8, 11].contains i then "C02,C05,C09"
  else if [3, 13].contains i then "C03,C09"
  else if i == 14 then "C07"
  else "C04,C05,C09"

/-- the maxima for which an object is cited: when such a number is wrong, the object cited for it does not
    attain the REPORTED value either (C08), unless no object is cited at all (--names=none) -/
def fieldPropW (cited : Bool) (i : Nat) : String :=
  if cited && [2, 4, 8, 11, 13, 15, 16, 17, 18, 19, 20, 21].contains i then fieldProp i ++ ",C08" else fieldProp i

/-- union of comma-separated property tags -/
def unionProps (l : List String) : String :=
  ",".intercalate ((l.flatMap (·.splitOn ",")).eraseDups)

/-- the specification: clamp of the true census over the delivered objects -/
def specNumbers (r : Repo) (D : List Nat) (nrefs : Nat) : List Nat :=
  let c := census r D
  [clamp c32 c.commits, clamp c64 c.commitSize, clamp c32 c.maxCommitSize, clamp c32 c.maxDepth, clamp c32 c.maxParents,
   clamp c32 c.trees, clamp c64 c.treeSize, clamp c64 c.treeEntries, clamp c32 c.maxTreeEntries,
   clamp c32 c.blobs, clamp c64 c.blobSize, clamp c32 c.maxBlobSize,
   clamp c32 c.tags, clamp c32 c.maxTagDepth, clamp c32 nrefs,
   clamp c32 c.maxTN.depth, clamp c32 c.maxTN.len, clamp c32 c.maxTN.trees, clamp c32 c.maxTN.blobs,
   clamp c64 c.maxTN.bsize, clamp c32 c.maxTN.links, clamp c32 c.maxTN.subs]

/-- the quantity a witness must attain, per witness slot: (kind check, value of object i) -/
def witnessValue (r : Repo) (tn : List TN) (tt : List Nat) (slot i : Nat) : Option Nat :=
  match slot, r.obj i with
  | 0, some (.commit s _ _) => some (clamp c32 s)
  | 1, some (.commit _ _ ps) => some (clamp c32 ps.length)
  | 2, some (.tree _ es) => some (clamp c32 es.length)
  | 3, some (.blob s) => some (clamp c32 s)
  | 4, some (.tag _ _ _) => some (clamp c32 (tt.getD i 0))
  | 5, some (.tree _ _) => some (clamp c32 (tn.getD i TN.unit).depth)
  | 6, some (.tree _ _) => some (clamp c32 (tn.getD i TN.unit).len)
  | 7, some (.tree _ _) => some (clamp c32 (tn.getD i TN.unit).trees)
  | 8, some (.tree _ _) => some (clamp c32 (tn.getD i TN.unit).blobs)
  | 9, some (.tree _ _) => some (clamp c64 (tn.getD i TN.unit).bsize)
  | 10, some (.tree _ _) => some (clamp c32 (tn.getD i TN.unit).links)
  | 11, some (.tree _ _) => some (clamp c32 (tn.getD i TN.unit).subs)
  | _, _ => none

/-- numeric field that each witness slot belongs to -/
def witnessField : List Nat := [2, 4, 8, 11, 13, 15, 16, 17, 18, 19, 20, 21]

def encGroupsCount (gs : List (Bytes × BitVec 32)) : String :=
  if gs.isEmpty then "-" else
  ",".intercalate ((gs.map fun g => s!"{Bytes.toHex g.1}={g.2.toNat}").toArray.qsort (· < ·)).toList

def graphEngine : Engine := fun inp obs =>
  match inp with
  | [repoS, opsS] =>
    match parseRepo repoS, parseOps opsS with
    | some r, some ops =>
      if obs == ["harness-error"] then .bad "object sizes inconsistent" else
      -- model
      let model : List String :=
        match runOps r ops {} with
        | .ok st =>
          match historySize r st with
          | .ok h =>
            let tm := (List.range r.length).filterMap fun i => (st.trees.sizes i).map fun s => s!"{i}:{fmtTS s}"
            let cm := (List.range r.length).filterMap fun i => (st.commits i).map fun s => s!"{i}:{s.MaxAncestorDepth.toNat}"
            let gm := (List.range r.length).filterMap fun i => (st.tags.sizes i).map fun s => s!"{i}:{s.TagDepth.toNat}"
            ["ok", ",".intercalate ((histNumbers h).map toString),
             ",".intercalate ((histWitnesses h).map fun w => match w with | some i => (if ops.length % 4 == 1 then "-" else toString i) | none => "-"),
             encGroupsCount st.refGroups,
             if tm.isEmpty then "-" else ";".intercalate tm,
             if cm.isEmpty then "-" else ",".intercalate cm,
             if gm.isEmpty then "-" else ",".intercalate gm]
          | _ => ["panic"]
        | _ => ["panic"]
      let valid := validSchedule r ops
      if !valid then
        (if model == obs then .ok "trivial" else .diff (joinTab model) "model differs (invalid schedule)")
      else
      -- specification, over the delivered objects
      let D := List.range r.length
      let nrefs := (ops.filter (fun o => (opOid o).isNone)).length
      let spec := specNumbers r D nrefs
      match obs with
      | ["ok", numS, witS, grpS, tmS, cmS, gmS] =>
        let nums := (numS.splitOn ",").map (fun x => x.toNat?.getD 0)
        -- 1. numbers
        let bad := (List.range spec.length).filter fun i => nums.getD i 0 != spec.getD i 0
        if let some i := bad.head? then
          .viol (unionProps (bad.map (fieldPropW (ops.length % 4 != 1)))) (", ".intercalate (bad.map fun i => s!"{fieldNames.getD i "?"} = {nums.getD i 0}, true value clamped = {spec.getD i 0}"))
        else
        -- 2. memos
        let tn := expandTable (PN r) r.length
        let dt := depthTable r
        let tt := tagDepthTable r
        let expTm := (List.range r.length).filterMap fun i => match r.obj i with
          | some (.tree _ _) => some s!"{i}:{fmtTN (tn.getD i TN.unit)}" | _ => none
        let expCm := (List.range r.length).filterMap fun i => match r.obj i with
          | some (.commit _ _ _) => some s!"{i}:{clamp c32 (dt.getD i 0)}" | _ => none
        let expGm := (List.range r.length).filterMap fun i => match r.obj i with
          | some (.tag _ _ _) => some s!"{i}:{clamp c32 (tt.getD i 0)}" | _ => none
        let j := fun (l : List String) (sep : String) => if l.isEmpty then "-" else sep.intercalate l
        if tmS != j expTm ";" then .viol "C04,C09" s!"tree memos {tmS} differ from the clamped recursive expansions {j expTm ";"}"
        else if cmS != j expCm "," then .viol "C03,C09" s!"commit depths {cmS} differ from the longest parent chains {j expCm ","}"
        else if gmS != j expGm "," then .viol "C03,C09" s!"tag depths {gmS} differ from the longest tag chains {j expGm ","}"
        else
        -- 3. witnesses: right kind, attains the reported value; none iff the value is 0 and no object qualifies
        let wits := witS.splitOn ","
        let wbad := (List.range 12).filter fun slot =>
          let fld := witnessField.getD slot 0
          if ops.length % 4 == 1 then wits.getD slot "-" != "-" else     -- this schedule ran with --names=none: nothing may be cited
          match wits.getD slot "-" with
          | "-" => nums.getD fld 0 != 0 && ![0, 1].contains slot   -- commit size/parents use IfPossible: always cited if a commit exists
          | w => match w.toNat? with
            | some i => witnessValue r tn tt slot i != some (nums.getD fld 0)
            | none => true
        if let some slot := wbad.head? then
          .viol "C08" s!"witness slot {slot} cites object {wits.getD slot "-"} which does not attain {fieldNames.getD (witnessField.getD slot 0) "?"} = {nums.getD (witnessField.getD slot 0) 0}"
        else
        -- 4. reference-group tallies
        let expGroups : List (Bytes × Nat) := ops.foldl (fun acc o => match o with
          | .ref gs => gs.foldl (fun a s => if a.any (·.1 == s) then a.map (fun p => if p.1 == s then (p.1, p.2 + 1) else p) else a ++ [(s, 1)]) acc
          | _ => acc) []
        let expG := if expGroups.isEmpty then "-" else
          ",".intercalate ((expGroups.map fun g => s!"{Bytes.toHex g.1}={clamp c32 g.2}").toArray.qsort (· < ·)).toList
        if grpS != expG then .viol "C07" s!"reference-group tallies {grpS}, expected {expG}"
        else if model != obs then .diff (joinTab model) "model differs from implementation (witness choice or internals)"
        else .ok (if Scan.runHypothesesb r ops then "thm" else "")
      | ["timeout"] => .viol "C05" "the aggregator did not finish this small repository within 60 s: its work grows with the expanded size, not with the number of distinct objects"
      | ["skipped"] => .ok "trivial"
      | ["panic"] => .viol "C09,C01,C02,C03,C04,C10" "the aggregator panics on a valid delivery schedule (no number is reported at all)"
      | _ => .bad "observed fields"
    | _, _ => .bad "decode"
  | _ => .bad "arity"

end GitSizer.Driver
