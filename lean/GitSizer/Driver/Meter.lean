import GitSizer.Driver.Common
import GitSizer.Model.Meter
/-! Engine `meter`: histories of the real `progressMeter` (tiny periods, random delays) must be
    histories of the interleaving model: phases in order, counts non-decreasing within a phase,
    exactly one final line per phase, last of its phase, carrying the number of `Inc()` calls. -/
namespace GitSizer.Driver
open GitSizer GitSizer.Meter

def parseLine (s : String) : Option Line :=
  match s.splitOn ":" with
  | [p, c, f] => do
    let ph ← p.toNat?
    let cnt ← c.toNat?
    if f == "0" then pure ⟨ph, cnt, false⟩ else if f == "1" then pure ⟨ph, cnt, true⟩ else none
  | _ => none

def meterEngine : Engine := fun inp obs =>
  match inp, obs with
  | [scriptS, _, _], [linesS] =>
    match (scriptS.splitOn ",").mapM String.toNat?, (if linesS == "-" then some [] else (linesS.splitOn ",").mapM parseLine) with
    | some script, some lines =>
      if validHistory script lines then (if lines.length > script.length then .ok else .ok "trivial")
      else .viol "C18" s!"history {linesS} is not a history of the meter model for Inc counts {scriptS}"
    | _, _ => .viol "C18" s!"a progress line is malformed: {linesS}"
  | _, ["panic"] => .viol "C18" "the progress meter panics"
  | _, _ => .bad "arity"

end GitSizer.Driver
