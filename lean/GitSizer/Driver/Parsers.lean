import GitSizer.Driver.Common
import GitSizer.Model.Parsers
import GitSizer.Spec.ObjGrammar
import GitSizer.Model.OidJson
/-! Engine `parsers`: the byte-level parsers against their models; structured cases are judged
    against the grammar (lossless, exact), every case against totality (no panic, no loop). -/
namespace GitSizer.Driver
open GitSizer GitSizer.Parsers

def hexB (b : Bytes) : String := Bytes.toHex b

def encEntries (es : List TreeEntry) : String :=
  if es.isEmpty then "-" else ",".intercalate (es.map fun e => s!"{e.mode}:{hexB e.name}:{hexB e.oid}")
def encOids (os : List Bytes) : String :=
  if os.isEmpty then "-" else ",".intercalate (os.map hexB)

def resFields {α} (r : Res α) (f : α → List String) : List String :=
  match r with
  | .ok a => "ok" :: f a
  | .err _ => ["err"]
  | .panic _ => ["panic"]

/-- JSON string token of an OID: quote, 40 lowercase hex digits, quote -/


def parsersModel (kind : String) (data : Bytes) : Option (List String) :=
  match kind with
  | "tree" => some (resFields (parseTree data) fun es => [encEntries es, toString (clamp c32 data.length)])
  | "commit" => some (resFields (parseCommit data) fun c => [toString c.size, hexB c.tree, encOids c.parents])
  | "tag" => some (resFields (parseTag data) fun t => [toString t.size, hexB t.referent, hexB t.refType])
  | "batch" => some (resFields (parseBatchHeader data) fun h => [hexB h.oid, hexB h.objType, toString h.size])
  | "ref" => some (resFields (parseReference data) fun r => [hexB r.refname, hexB r.objType, toString r.size, hexB r.oid])
  | "oid" => some (match Go.newOID data with
      | some o => ["ok", hexB o, hexB (Spec.hexEncode o), hexB (oidJson o)]
      | none => ["err"])
  | _ => none

/-- what the grammar requires for a structured case; `none` = nothing to judge -/
def parsersExpected (kind : String) (data : Bytes) (struct : String) : Option (String × List String) :=
  if struct == "?" then none else
  match kind with
  | "tree" => some ("C16", ["ok", struct, toString (clamp c32 data.length)])
  | "commit" =>
    match struct.splitOn ";" with
    | [t, ps] => some ("C16,C02", ["ok", toString (clamp c32 data.length), t, ps])
    | _ => none
  | "tag" =>
    match struct.splitOn ";" with
    | [o, ty] => some ("C16,C03", ["ok", toString (clamp c32 data.length), o, ty])
    | _ => none
  | "batch" =>
    match struct.splitOn ";" with
    | [o, ty, sz] =>
      match Bytes.ofHex ty, sz.toNat? with
      | some tyb, some n =>
        let line := Bytes.ofString o ++ [32] ++ tyb ++ [32] ++ Bytes.ofString sz ++ [10]
        if line == data then some ("C16,C05", ["ok", o, ty, toString (clamp c64 n)]) else none
      | _, _ => none
    | _ => none
  | "ref" =>
    match struct.splitOn ";" with
    | [o, ty, sz, nm] =>
      match sz.toNat? with
      | some n => some ((if n ≥ 2^32 then "C05" else "C16,C05"), ["ok", nm, ty, toString (clamp c32 n), o])
      | none => none
    | _ => none
  | _ => none

def parsersEngine : Engine := fun inp obs =>
  match inp with
  | [kind, dh, struct] =>
    match Bytes.ofHex dh with
    | none => .bad "hex"
    | some data =>
      if obs == ["panic"] then .viol "C16,C10" s!"{kind} parser crashes (panic) on input {dh}"
      else if obs == ["loop"] then .viol "C16" s!"{kind} parser does not terminate on input {dh}"
      else
      match parsersExpected kind data struct with
      | some (props, exp) =>
        if obs != exp then .viol props s!"{kind}: well-formed object parsed as {obs}, the grammar requires {exp}"
        else (match parsersModel kind data with
          | some m => if m == obs then .ok else .diff (joinTab m) "model differs"
          | none => .bad "kind")
      | none =>
        -- the OID's JSON form must be a valid JSON string token whatever the bytes (C19)
        match parsersModel kind data with
        | some m =>
          if m == obs then .ok
          else if kind == "tree" then
            -- a tree is `(octal mode SP name NUL 20 bytes)*` and nothing else: the model's reading of that grammar is
            -- the one `tree_roundtrip` is proved about, and git rejects what it rejects ("malformed mode in tree entry")
            .viol "C16" s!"tree parser returns {obs} on bytes for which the tree grammar gives {m} (input {dh})"
          else .diff (joinTab m) "model differs from implementation"
        | none => .bad "kind"
  | _ => .bad "arity"

end GitSizer.Driver
