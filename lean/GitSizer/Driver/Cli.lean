import GitSizer.Driver.E2E
import GitSizer.Model.ScanProto
/-! Engines on the real binary: `opts` (C14), `addr` (C13), `rw` (C17, C18), `fault` (C10). -/
namespace GitSizer.Driver
open GitSizer GitSizer.Spec

/-- `opts`: two command lines / configurations that must be equivalent, or a first one that must fail -/
def optsEngine : Engine := fun inp obs =>
  match inp, obs with
  | [c1, a1, c2, a2, expect], [ca, ha, la, ea, cb, hb, _lb, _eb, pa, pb] =>
    -- which rows are shown is C11's subject too when the invocations differ in how the threshold is given
    -- (hex of "threshold", "verbose", "critical" in the encoded options / settings)
    let thr := [c1, a1, c2, a2].any fun f => (f.splitOn "7468726573686f6c64").length > 1 || (f.splitOn "766572626f7365").length > 1 || (f.splitOn "637269746963616c").length > 1
    if expect == "equal" then
      if ca != "0" || cb != "0" then .viol "C14" s!"equivalent invocations must both succeed: exit {ca} / {cb}"
      else if ha != hb then .viol (if thr then "C14,C11" else "C14") "equivalent option spellings / gitconfig settings produced different stdout"
      else if pa != pb then .viol "C14" s!"equivalent progress settings: progress lines written {pa} / {pb}"
      else .ok
    else
      if ca == "0" then .viol "C14,C10" "an invalid option value or gitconfig setting in effect did not make the run fail"
      else if la != "0" then .viol "C10" "a failing run wrote a report to stdout"
      else if ea != "1" then .viol "C10" "a failing run wrote no error message"
      else .ok
  | _, ["setup-failed"] => .bad "setup"
  | _, _ => .bad "arity"

def allEq (l : List String) : Bool := match l with | [] => true | x :: xs => xs.all (· == x)

/-- `addr`: the same repository addressed in several ways, with replace refs, grafts, shallow marker -/
def addrEngine : Engine := fun inp obs =>
  match inp, obs with
  | [repoS, _t, refsS, _g, rootsS, style, shallow], ["ran", codesS, hashesS, numS, witS, wtHead, rootReal] =>
    match parseRepo repoS, parseIdxList rootsS "." with
    | some r, some roots =>
      let codes := codesS.splitOn ","
      let hashes := hashesS.splitOn ","
      if shallow == "1" then
        if codes.any (· == "0") then .viol "C13,C10" "a shallow clone was measured instead of being refused"
        else if hashes.any (fun h => !h.endsWith "/0") then .viol "C13,C10" "a refused run wrote to stdout"
        else .ok
      else if codes.any (· != "0") then .viol "C13" s!"git-sizer failed in some addressing mode: exit codes {codes}"
      else if !allEq hashes then .viol "C13" s!"the report differs between addressing modes: {hashes}"
      else if wtHead == "0" then .viol "C13" "`git-sizer HEAD` in a linked worktree does not measure that worktree's HEAD"
      else if rootReal == "0" then .viol "C13" "a ROOT argument (X^{tree} / X^ of a commit with a replacement or graft) was resolved through the replacement or the graft"
      else
        let nrefs := if refsS == "-" then 0 else (refsS.splitOn ",").length
        let D := reachList r roots
        let nums := (numS.splitOn ",").map (fun x => x.toNat?.getD 0)
        let spec := specNumbers r D nrefs
        let bad := (List.range spec.length).filter fun i => nums.getD i 0 != spec.getD i 0
        if let some i := bad.head? then
          .viol "C13,C01,C03" s!"{fieldNames.getD i "?"} = {nums.getD i 0}, but the stored objects give {spec.getD i 0} (replace refs / grafts must not change what is measured)"
        else if style == "full" && (witS.splitOn ",").any (fun w => (w.splitOn ":").getD 1 "" == "0") then
          -- F18: a description with non-UTF-8 bytes is lossy in JSON (U+FFFD)
          (if (witS.splitOn ",").all (fun w => (w.splitOn ":").getD 1 "" != "0" || ((w.splitOn ":").getD 2 "").toLower.replace "efbfbd" "" != ((w.splitOn ":").getD 2 "").toLower)
           then .known "F18" "a description containing non-UTF-8 bytes is lossy in JSON and does not resolve"
           else .viol "C08" "a printed description does not resolve to the cited object")
        else .ok
    | _, _ => .bad "decode"
  | _, ["dup"] => .ok "trivial"
  | _, "setup-failed" :: _ => .bad "setup"
  | _, _ => .bad "arity"

/-- `rw`: read-only, deterministic, race-free; progress counts equal the census -/
def rwEngine : Engine := fun inp obs =>
  match inp, obs with
  | [repoS, _t, refsS, argsS, rootsS, style, _fmt], ["ran", codesS, sameOut, sameDir, race, countsS, quietS, _len] =>
    match parseRepo repoS, parseIdxList rootsS "." with
    | some r, some roots =>
      if codesS != "0,0,0" then .viol "C17,C10" s!"git-sizer failed on a valid repository: exit codes {codesS}"
      else if race == "1" then .viol "C17" "the race detector reported a data race"
      else if sameDir != "1" then .viol "C17" "the repository directory changed during the scan"
      else if sameOut != "1" then .viol "C17,C18" "stdout differs between runs (GOMAXPROCS 1/4/16, --progress / --no-progress)"
      else if quietS != "1" then .viol "C18" "--no-progress wrote to stderr"
      else
        let D := reachList r roots
        let c := census r D
        let nrefs := if refsS == "-" then 0 else (refsS.splitOn ",").length
        let nRootArgs := ((if argsS == "-" then [] else argsS.splitOn ",").filter (fun h => !h.startsWith "2d")).length
        let exp : List (String × Nat) :=
          [("Processing blobs", c.blobs), ("Processing trees", c.trees), ("Processing commits", c.commits)] ++
          (if style == "none" then [] else [("Matching commits to trees", c.commits)]) ++
          [("Processing annotated tags", c.tags), ("Processing references", nrefs + nRootArgs)]
        let expS := ",".intercalate (exp.map fun (k, v) => s!"{hexS k}={v}")
        if countsS != expS then .viol "C18" s!"final progress counts {countsS} differ from the census {expS}"
        else .ok
    | _, _ => .bad "decode"
  | _, ["dup"] => .ok "trivial"
  | _, "setup-failed" :: _ => .bad "setup"
  | _, _ => .bad "arity"

/-- `fault`: a git subprocess that fails / is killed at some point of its output, or a missing object -/
def faultEngine : Engine := fun inp obs =>
  match inp, obs with
  | [repoS, _t, _refs, _args, specS, missingS, _fmt, rootsS], ["ran", c0, c1, cls, errS, _msg, hitsS] =>
    match parseRepo repoS, parseIdxList rootsS "." with
    | some r, some roots =>
      if c0 != "0" then .viol "C10,C01" s!"the fault-free baseline run failed (exit {c0})" else
      if c1 == "-9" then .viol "C10" "git-sizer did not terminate within the hang limit (60 s)" else
      -- a subprocess that truncates its output but still reports success is outside the property
      -- (indistinguishable from a smaller repository): no expectation on the report then
      let lying : Bool := match specS.splitOn "|" with
        | [_, pm, _, exitS, killS] => missingS == "-1" && killS != "1" && (exitS == "-1" || exitS == "0") && pm != "1000"
        | _ => false
      let allOrNothing : Verdict :=
        if c1 == "0" then (if cls == "same" || lying then .ok else .viol "C10" "exit status 0 but the report differs from the fault-free one")
        else if cls != "empty" then .viol "C10" s!"exit status {c1} but a report was written to stdout"
        else if errS != "1" then .viol "C10" s!"exit status {c1} without an error message"
        else .ok
      match allOrNothing with
      | .ok _ =>
        if missingS != "-1" then
          let D := reachList r roots
          -- the empty tree is built into git: deleting its file does not make it missing
          let builtin := match r.obj (missingS.toNat?.getD 0) with | some (.tree _ []) => true | _ => false
          if builtin then .ok "trivial" else
          if D.contains (missingS.toNat?.getD 0) then
            (if c1 == "0" then .viol "C10,C01" s!"reachable object {missingS} is missing but the run succeeded" else .ok)
          else .ok "trivial"   -- an object outside the reachable set (it may still be the target of an unselected reference)
        else
          match specS.splitOn "|" with
          | [target, _pm, _al, exitS, killS] =>
            let hit := hitsS != "0"
            -- the prediction of the protocol model (`Model/ScanProto`): is this result a failure of the invocation?
            let kind : ScanProto.Kind :=
              if target.startsWith "config --get" then .configGet else if target.startsWith "config --list" then .configList
              else if target.startsWith "rev-parse --git-dir" then .discover else if target.startsWith "rev-parse --git-path" then .gitPath
              else if target.startsWith "rev-parse --verify" then .revParseVerify else if target.startsWith "for-each-ref" then .forEachRef
              else if target.startsWith "rev-list" then .revList else if target.startsWith "cat-file --batch-check" then .catFileCheck
              else .catFileBatch
            let status : ScanProto.Status :=
              if killS == "1" then .killed else if exitS == "-1" || exitS == "0" then .ok else .exit (exitS.toNat?.getD 1)
            let failing := (ScanProto.Inv.failing ⟨kind, status, _pm == "1000"⟩)
            if !hit then (if c1 == "0" then .ok "trivial" else .viol "C10" "the targeted git invocation never ran, yet the run failed")
            else if failing then
              (if c1 == "0" then .viol "C10" s!"git {target} failed ({specS}) but git-sizer exited with status 0 and a report" else .ok)
            else .ok "trivial"   -- a subprocess that truncates its output but reports success is outside the property
          | _ => .bad "fault spec"
      | v => v
    | _, _ => .bad "decode"
  | _, ["dup"] => .ok "trivial"
  | _, "setup-failed" :: _ => .bad "setup"
  | _, _ => .bad "arity"

end GitSizer.Driver
