import GitSizer.Driver.Common
import GitSizer.Spec.ConfigGrammar
/-! Engines `config` (raw listings through the real `GetConfig`, key/prefix matching) and
    `confige2e` (real config files, real `git config --list -z` as the reference listing). -/
namespace GitSizer.Driver
open GitSizer GitSizer.Config

def encCfg (es : List (Bytes × Bytes)) : String :=
  if es.isEmpty then "-" else ",".intercalate (es.map fun e => s!"{Bytes.toHex e.1}:{Bytes.toHex e.2}")

def cfgFields (r : Option (List (Bytes × Bytes))) : List String :=
  match r with
  | some es => ["ok", encCfg es]
  | none => ["err"]

/-- boolean form of `Spec.KeyUnder`, evaluated independently of `keyMatchesPrefix` -/
def keyUnderB (key pfx : Bytes) : Option Bytes :=
  if pfx.isEmpty then some key
  else if pfx.getLast? = some DOT then (if Bytes.hasPrefix key pfx then some (key.drop pfx.length) else none)
  else if key = pfx then some []
  else if Bytes.hasPrefix key (pfx ++ [DOT]) then some (key.drop (pfx.length + 1))
  else none

def listingVerdict (listing pfx : Bytes) (obs : List String) : Verdict :=
  let m := cfgFields (getConfig listing pfx)
  let s := cfgFields (Spec.expectedConfig listing pfx)
  if obs == ["panic"] then .viol "C15,C10" "GetConfig panics"
  else if obs != s then
    -- is the listing one that git can print (every record = key [LF value] NUL)? then it is a violation
    .viol "C15,C07" s!"GetConfig returned {obs}; the listing read record by record (NUL-terminated) gives {s}"
  else if m != obs then .diff (joinTab m) "model differs" else .ok

def configEngine : Engine := fun inp obs =>
  match inp with
  | ["match", kh, ph] =>
    match Bytes.ofHex kh, Bytes.ofHex ph with
    | some k, some p =>
      let m := keyMatchesPrefix k p
      let mf := [if m.1 then "1" else "0", Bytes.toHex m.2]
      let sf := match keyUnderB k p with
        | some rest => ["1", Bytes.toHex rest]
        | none => ["0", "-"]
      if obs != sf then .viol "C15" s!"configKeyMatchesPrefix({kh},{ph}) = {obs}, component-boundary matching requires {sf}"
      else if mf != obs then .diff (joinTab mf) "model differs" else .ok
    | _, _ => .bad "hex"
  | ["listing", lh, ph] =>
    match Bytes.ofHex lh, Bytes.ofHex ph with
    | some l, some p => listingVerdict l p obs
    | _, _ => .bad "hex"
  | _ => .bad "arity"

/-- NUL-terminated records of a listing -/
def nulRecords (l : Bytes) : List Bytes :=
  (l.foldl (fun (acc : List Bytes × Bytes) b => if b = 0 then (acc.2.reverse :: acc.1, []) else (acc.1, b :: acc.2)) ([], [])).1.reverse

/-- every record git reports for the repository in the caller's environment is in the listing that
    `GetConfig` reads, in git's order (`GitCommand` may add entries of its own, never drop one) -/
def scopesKept (indep listing : Bytes) : Bool := (nulRecords indep).isSublist (nulRecords listing)

def configE2EEngine : Engine := fun inp obs =>
  match inp, obs with
  | [_, _, _, ph], ["ok", lh, cfg, ih] =>
    match Bytes.ofHex lh, Bytes.ofHex ph, Bytes.ofHex ih with
    | some l, some p, some i =>
      if !scopesKept i l then .viol "C15,C14" "an entry that git reports for the repository (caller's environment) is missing from the listing GetConfig reads"
      else listingVerdict l p ["ok", cfg]
    | _, _, _ => .bad "hex"
  | [_, _, _, ph], ["err", lh, ih] =>
    match Bytes.ofHex lh, Bytes.ofHex ph, Bytes.ofHex ih with
    | some l, some p, some i =>
      if !scopesKept i l then .viol "C15,C14" "an entry that git reports for the repository (caller's environment) is missing from the listing GetConfig reads"
      else listingVerdict l p ["err"]
    | _, _, _ => .bad "hex"
  | _, ["git-rejects-config"] => .ok "trivial"
  | _, ["setup-failed"] => .bad "could not create the scratch repository"
  | _, ["panic"] => .viol "C15,C10" "GetConfig panics"
  | _, _ => .bad "arity"

end GitSizer.Driver
