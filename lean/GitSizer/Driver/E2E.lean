import GitSizer.Driver.Graph
import GitSizer.Driver.Refs
import GitSizer.Model.ScanCheck
/-! Engine `e2e`: generated repositories written as real git repositories (loose / repacked /
    gc'ed, adversarial commit dates), scanned by the real `git-sizer` binary. The JSON numbers are
    judged against the specification evaluated on the reachable set of the chosen roots; every
    cited witness must be a reachable object of the right kind attaining the value, and every
    printed description must resolve (`git rev-parse`, run by the harness) to the cited object.
    The assumed contract of `git rev-list` (exact closure, children first) is validated per case. -/
namespace GitSizer.Driver
open GitSizer GitSizer.Spec

def parseIdxList (s : String) (sep : String) : Option (List Nat) :=
  if s == "-" || s.isEmpty then some [] else (s.splitOn sep).mapM String.toNat?

/-- The harness computes the walked roots of a case itself (explicit ROOT arguments first, then the selected
    references in listing order). For the selection options it generates (--branches, --tags, --no-tags) the
    same list is recomputed here from the PROVED specification of reference selection (`Spec.categorizeSpec`,
    `C06.last_match`) and the regenerated flag table; `some why` = the harness and the specification disagree. -/
def selectionCheck (refsS argsS : String) (roots : List Nat) : Option String :=
  let args := (splitList argsS ",").filterMap fun h => (Bytes.ofHex h).map Bytes.toStringLossy
  let flags := (args.filter (·.startsWith "--")).map (fun a => (a.drop 2).toString)
  let explicit := args.filter (fun a => !a.startsWith "--")
  if !flags.all (fun f => ["branches", "tags", "no-tags"].contains f) then none else
  let refs : List (Bytes × Nat) := (splitList refsS ",").filterMap fun e =>
    match (e.splitOn "=").reverse with
    | v :: nameParts@(_ :: _) => ((v.splitOn "@").headD "").toNat?.map fun i => (Bytes.ofString ("=".intercalate nameParts.reverse), i)
    | _ => none
  if refs.length != (splitList refsS ",").length then some "undecodable reference list" else
  let names := refs.map (·.1)
  match refsRun Spec.lookupExact (mkEnv [] names true) [] (flags.map fun f => ⟨f, none⟩) (!explicit.isEmpty) names Spec.categorizeSpec with
  | ["ok", _, cats] =>
    let walks := (splitList cats ",").map fun (c : String) => c.startsWith "1"
    let expected := ((refs.zip walks).filter (·.2)).map (·.1.2)
    let actual := roots.drop explicit.length
    if expected != actual then some s!"the harness walks the references' objects {actual}, the specification of reference selection gives {expected}" else none
  | other => some s!"the selection specification rejects the generated options: {other}"

def e2eEngine : Engine := fun inp obs =>
  match inp with
  | [repoS, _times, refsS, argsS, rootsS, style, layout] =>
    match parseRepo repoS, parseIdxList rootsS "." with
    | some r, some roots =>
      let nrefs := if refsS == "-" then 0 else (refsS.splitOn ",").length
      let D := reachList r roots
      if let some why := (if layout.endsWith "!badroot" then none else selectionCheck refsS argsS roots) then .bad s!"root oracle: {why}" else
      if layout.endsWith "!badroot" then
        (match obs with
         | ["dup"] => .ok "trivial"
         | "setup-failed" :: _ => .bad "could not build the repository"
         | "fail" :: "-9" :: _ => .viol "C05,C10" "git-sizer did not finish within the hang limit (60 s) on a repository of a few dozen objects"
         | "fail" :: _ => .ok
         | _ => .viol "C10,C08" "a ROOT argument that is not a single revision (X^@ / X^!) was accepted: the report's descriptions are built from a name git cannot resolve")
      else
      match obs with
      | ["dup"] => .ok "trivial"
      | "setup-failed" :: _ => .bad "could not build the repository"
      | "fail" :: "-9" :: _ => .viol "C05,C10" "git-sizer did not finish within the hang limit (60 s) on a repository of a few dozen objects"
      | "fail" :: code :: _ => .viol ((if argsS == "-" then "C01,C02,C03,C04,C05,C08,C09,C10,C19" else "C01,C02,C03,C04,C05,C08,C09,C10,C19,C06") ++ (if nrefs > 0 then ",C07" else "")) s!"git-sizer failed (exit {code}) or wrote an unparsable report on a valid repository"
      | ["ok", numS, witS, _grpS, revS, stderrEmpty] =>
        -- contract of git: rev-list lists exactly the closure, children before parents
        let listing : Option (List Nat) := if roots.isEmpty then some [] else
          match revS.splitOn ";" with
          | [l, _] => parseIdxList l "."
          | _ => none
        let contract : Option String :=
          if roots.isEmpty then none else
          match revS.splitOn ";", listing with
          | [_, topo], some listed =>
            if (listed.toArray.qsort (· < ·)).toList != D then some s!"rev-list listed {listed}, closure is {D}"
            else if topo != "1" then some "rev-list listed a parent before its child" else none
          | _, _ => some "rev-list failed"
        if let some why := contract then .bad s!"assumed contract of git rev-list does not hold: {why}" else
        let nums := (numS.splitOn ",").map (fun x => x.toNat?.getD 0)
        let spec := specNumbers r D nrefs
        -- the whole-scan theorem applies to this very case iff its (soundly) decided hypotheses hold:
        -- then the model's scan of git's own listing is proved to give the clamped truth
        let L := listing.getD []
        let thm := Scan.scanHypothesesb r L
        -- the executable aggregator model keeps listeners in append-only lists and records in chains of
        -- function updates: quadratic in the fan-out. Above 20 000 entries in one tree only the specification
        -- (the census over the reachable set) judges the report; the model is not run
        let huge := r.any fun o => match o with | .tree _ es => es.length > 20000 | _ => false
        let thm := thm && !huge
        let modelNums : Option (List Nat) :=
          if huge then some nums else
          match Scan.scan r L (List.replicate nrefs []) with
          | .ok h => some (histNumbers h)
          | _ => none
        if thm && modelNums != some spec then
          .bad s!"the whole-scan theorem's closed form and the judge's census disagree: model {modelNums}, census {spec}" else
        let bad := (List.range spec.length).filter fun i => nums.getD i 0 != spec.getD i 0
        if let some i := bad.head? then
          -- with selection options on the command line, a census over another set than the specified one is
          -- (also) a wrong selection of references
          .viol (unionProps (bad.map (fieldPropW (style != "none")) ++ (if argsS == "-" then [] else ["C06"]))) (", ".intercalate (bad.map fun i => s!"{fieldNames.getD i "?"} = {nums.getD i 0}, specification over the reachable set = {spec.getD i 0}"))
        else
        let tn := expandTable (PN r) r.length
        let tt := tagDepthTable r
        let wits := witS.splitOn ","
        let wbad := (List.range 12).filterMap fun slot =>
          let fld := witnessField.getD slot 0
          match wits.getD slot "-" with
          | "-" => none
          | w =>
            match w.splitOn ":" with
            | idxS :: res =>
              if style == "none" then some s!"an object is cited for {fieldNames.getD fld "?"} although --names=none" else
              match idxS.toNat? with
              | none => some s!"the object cited for {fieldNames.getD fld "?"} does not exist in the repository"
              | some i =>
                if !D.contains i then some s!"object {i} cited for {fieldNames.getD fld "?"} is not reachable from the chosen roots"
                else if witnessValue r tn tt slot i != some (nums.getD fld 0) then
                  some s!"object {i} cited for {fieldNames.getD fld "?"} does not attain the reported value {nums.getD fld 0}"
                else if res.head? == some "0" then
                  some s!"the description printed for {fieldNames.getD fld "?"} (hex {res.getD 1 ""}) does not resolve to the cited object"
                else none
            | _ => some "malformed witness"
        -- F18: JSON strings cannot carry non-UTF-8 bytes; such a file or reference name reaches the JSON
        -- report with U+FFFD in place of each invalid byte, and that description does not resolve
        let lossy := (List.range 12).any fun slot =>
          match (wits.getD slot "-").splitOn ":" with
          | [_, "0", dh] => dh.toLower.replace "efbfbd" "" != dh.toLower
          | _ => false
        if let some why := wbad.head? then
          (if lossy && wbad.all (fun w => w.endsWith "does not resolve to the cited object") then .known "F18" why else .viol "C08" why)
        else if stderrEmpty != "1" then .viol "C18,C10" "a successful run with --no-progress wrote to stderr"
        else if modelNums != some nums then .diff (toString modelNums) "model scan of git's listing differs from the implementation"
        else .ok (if thm then "thm" else "")
      | _ => .bad "observed fields"
    | _, _ => .bad "decode"
  | _ => .bad "arity"

end GitSizer.Driver
