import GitSizer.Driver.Common
import GitSizer.Model.Output
/-! Engine `output`: `TableString` (byte-exact), JSON v1 and JSON v2 of a synthetic measurement
    against `Model/Output`, and the property-level judge of C11 / C19 / C05 (rendering):
    which rows are shown, with which value, unit and marker; footnote numbering; the three
    formats carry the same numbers. -/
namespace GitSizer.Driver
open GitSizer GitSizer.Output GitSizer.Human

def numFieldNames : List String :=
  ["UniqueCommitCount", "UniqueCommitSize", "MaxCommitSize", "MaxHistoryDepth", "MaxParentCount",
   "UniqueTreeCount", "UniqueTreeSize", "UniqueTreeEntries", "MaxTreeEntries",
   "UniqueBlobCount", "UniqueBlobSize", "MaxBlobSize", "UniqueTagCount", "MaxTagDepth", "ReferenceCount",
   "MaxPathDepth", "MaxPathLength", "MaxExpandedTreeCount", "MaxExpandedBlobCount",
   "MaxExpandedBlobSize", "MaxExpandedLinkCount", "MaxExpandedSubmoduleCount"]

def witnessFieldNames : List String :=
  ["MaxCommitSizeCommit", "MaxParentCountCommit", "MaxTreeEntriesTree", "MaxBlobSizeBlob", "MaxTagDepthTag",
   "MaxPathDepthTree", "MaxPathLengthTree", "MaxExpandedTreeCountTree", "MaxExpandedBlobCountTree",
   "MaxExpandedBlobSizeTree", "MaxExpandedLinkCountTree", "MaxExpandedSubmoduleCountTree"]

/-- decode IEEE-754 binary64 bits -/
def thrOfBits (b : Nat) : Thr :=
  let sign : Bool := b / 2^63 == 1
  let e : Nat := (b / 2^52) % 2048
  let m : Nat := b % 2^52
  if e == 2047 then (if m == 0 then (if sign then .negInf else .posInf) else .nan)
  else
    let (mant, ex) : Nat × Int := if e == 0 then (m, -1074) else (m + 2^52, (e : Int) - 1075)
    let v : Dy := if ex ≥ 0 then ⟨mant * 2 ^ ex.toNat, 1⟩ else ⟨mant, 2 ^ (-ex).toNat⟩
    .fin (sign && mant != 0) v

/-- a witness slot: none | null oid | (oid hex, description) -/
inductive Wit where
  | none | null | some (oid : String) (desc : Bytes)

def parseWit (s : String) : Option Wit :=
  if s == "-" then some .none else if s == "N" then some .null else
  match s.splitOn ":" with
  | [o, d] => (Bytes.ofHex d).map (Wit.some o)
  | _ => Option.none

def nullHex : String := String.ofList (List.replicate 40 '0')

/-- `item.Footnote(nameStyle)` and the JSON v2 object fields -/
def footOf (style : Nat) : Wit → Bytes × String × Bytes
  | .none => ([], "", [])
  | .null => ([], "", [])
  | .some o d =>
    let foot : Bytes := if style == 0 then [] else if style == 1 then Bytes.ofString o
      else if d.isEmpty then Bytes.ofString o else Bytes.ofString o ++ Bytes.ofString " (" ++ d ++ Bytes.ofString ")"
    (foot, o, d)

/-- data rows of a rendered table, parsed from the right at byte level (fixed-width value / unit /
    marker columns; the value column holds five runes, i.e. five ASCII bytes or four spaces and the
    three-byte infinity sign): (name part, value, unit, marker); `none` if the line has another shape -/
def parseRowB (line : Bytes) : Option (Bytes × String × String × String) :=
  let rev := line.reverse
  -- from the right: " |" (2)  marker (30)  " | " (3)  unit (3)  " " (1)  value (5 or 7)  " | " (3)  name…  "| " (2)
  if rev.take 2 != [124, 32] then none else
  let r1 := rev.drop 2
  let marker := (r1.take 30).reverse
  let r2 := r1.drop 30
  if r2.take 3 != [32, 124, 32] then none else
  let r3 := r2.drop 3
  let unit := (r3.take 3).reverse
  let r4 := r3.drop 3
  if r4.take 1 != [32] then none else
  let r5 := r4.drop 1
  let isInf := r5.take 3 == [0x9e, 0x88, 0xe2]
  let vlen := if isInf then 7 else 5
  let value := (r5.take vlen).reverse
  let r6 := r5.drop vlen
  if r6.take 3 != [32, 124, 32] then none else
  let nameP := (r6.drop 3).reverse.drop 2
  let str := fun (b : Bytes) => (match String.fromUTF8? (ByteArray.mk b.toArray) with | some s => s | none => "?").trimAscii.toString
  some (nameP, str value, str unit, str marker)

/-- a trailing citation `[n]` in the name column -/
def citationOf (name : Bytes) : Option Nat :=
  let cs := (name.reverse.dropWhile (· == 32))
  if cs.head? != some 93 then none else
  let digits := (cs.drop 1).takeWhile (fun c => 48 ≤ c.toNat ∧ c.toNat ≤ 57)
  if digits.isEmpty || ((cs.drop 1).drop digits.length).head? != some 91 then none else
  (String.ofList (digits.reverse.map (fun c => Char.ofNat c.toNat))).toNat?

/-- a footnote line `[n]  text` -/
def footnoteOf (line : Bytes) : Option (Nat × Bytes) :=
  if line.head? != some 91 then none else
  let digits := (line.drop 1).takeWhile (fun c => 48 ≤ c.toNat ∧ c.toNat ≤ 57)
  let rest := (line.drop 1).drop digits.length
  if digits.isEmpty || rest.head? != some 93 then none else
  (String.ofList (digits.map (fun c => Char.ofNat c.toNat))).toNat?.map (fun n => (n, (rest.drop 1).dropWhile (· == 32)))

def splitLines (b : Bytes) : List Bytes := (Bytes.splitOn 10 b).filter (fun l => !l.isEmpty)

def decodeUtf8Lossy (b : Bytes) : String :=
  match String.fromUTF8? (ByteArray.mk b.toArray) with
  | some s => s
  | none => Bytes.toStringLossy b

/-- expected data rows for a threshold (the specification of C11): (name, value, unit, marker, footnote) -/
def expectedRows (thr : Thr) (its : List Item) : List (Bytes × String × String × String × Bytes) :=
  its.filterMap fun i =>
    match levelOfConcern i.value i.scaleNum i.scaleDen thr with
    | none => none
    | some lvl =>
      let (v, u) := Human.format (prefixesOf i.humaner) i.value.n i.value.overflow i.unit
      some (i.name, v, u, lvl, i.footnote)

structure OutCase where
  m : Meas
  style : Nat
  its : List Item
  contents : Output.Node

/-- judge one observed table against the expected rows; returns a violation message if any -/
def judgeTable (oc : OutCase) (thr : Thr) (obsHex : String) : Option (String × String) :=
  let exp := expectedRows thr oc.its
  if obsHex == "panic" then some ("C07,C11,C10", "table rendering panics")
  else match Bytes.ofHex obsHex with
  | none => some ("C11", "undecodable table")
  | some tb =>
    if exp.isEmpty then
      (if tb == noProblems then none else some ("C11", s!"no row qualifies but the output is not the single 'no problems' line"))
    else if tb == noProblems then some ("C11", s!"{exp.length} row(s) qualify but 'no problems' was printed")
    else
      let rows := ((splitLines tb).drop 2).filterMap parseRowB
      let dataRows := rows.filter (fun r => r.2.1 != "" || r.2.2.2 != "")
      -- names are written unescaped: a name containing LF or '|' can forge/break rows (F13, C19)
      let expV := exp.map (fun e => (e.2.1, e.2.2.1, e.2.2.2.1))
      let obsV := dataRows.map (fun r => (r.2.1, r.2.2.1, r.2.2.2))
      if obsV != expV then
        some ("C11,C05", s!"data rows (value, unit, marker) {obsV} differ from the expected {expV}")
      else
        -- C19: citations and footnotes
        let body := (splitLines tb).drop 2
        let isRow := fun (l : Bytes) => l.take 2 == [124, 32]
        let cited := (body.filter isRow).filterMap (fun l => (parseRowB l).bind (fun r => citationOf r.1))
        let notes := (body.filter (fun l => !isRow l)).map footnoteOf
        if notes.any Option.isNone then some ("C19", "a line of the output is neither a table row nor a footnote")
        else
          let ns := notes.filterMap id
          let k := ns.length
          let firsts := cited.foldl (fun acc c => if acc.contains c then acc else acc ++ [c]) ([] : List Nat)
          if ns.map (·.1) != (List.range k).map (· + 1) then some ("C19", s!"footnotes are not numbered 1..{k}")
          else if firsts != (List.range k).map (· + 1) then some ("C19", s!"citations {cited} do not refer to the footnotes 1..{k} in order of first citation")
          else if (ns.map (·.2)).eraseDups.length != k then some ("C19", "two footnotes have the same text")
          else if (body.filter isRow).any (fun l => (parseRowB l).isNone) then some ("C19", "a table row does not have the three-column shape")
          else none

def mkCase (nums : List Nat) (wits : List Wit) (groups : List (String × Bytes × Option Nat)) (style : Nat) : OutCase :=
  let m : Meas := {
    nums := numFieldNames.zip nums
    foot := (witnessFieldNames.zip wits).map (fun (f, w) => (f, footOf style w))
    groups :=
      -- `ReferenceGroups` is a map from symbol to tally (the last assignment wins); every listed
      -- group whose symbol has a tally gets a row
      let tally := fun (sym : String) => (groups.filter (fun g => g.1 == sym && g.2.2.isSome)).getLast?.bind (·.2.2)
      groups.filterMap (fun (s, n, _) => (tally s).map (fun c => (s, n, c))) }
  let c := contentsOf m
  ⟨m, style, items c, c⟩

def parseGroups (s : String) : Option (List (String × Bytes × Option Nat)) :=
  (splitListO s).mapM fun g =>
    match g.splitOn ":" with
    | [sh, nh, t] => do
      let sb ← Bytes.ofHex sh
      let nb ← Bytes.ofHex nh
      pure (decodeUtf8Lossy sb, nb, if t == "-" then none else t.toNat?)
    | _ => none
where splitListO (s : String) : List String := if s == "-" || s.isEmpty then [] else s.splitOn ","

/-- footnote well-formedness of an observed table (C19): citations [n] in rows and footnote lines
    numbered 1..k in order of first citation; every footnote cited -/
def footnotesOK (fn : Footnotes) (exp : List (Bytes × String × String × String × Bytes)) : Bool :=
  -- recompute from the specification: distinct non-empty footnote texts in order of first use
  let texts := exp.foldl (fun acc e => if e.2.2.2.2.isEmpty || acc.contains e.2.2.2.2 then acc else acc ++ [e.2.2.2.2]) ([] : List Bytes)
  fn.notes == texts

def v1Expected (oc : OutCase) (wits : List Wit) (groups : List (String × Bytes × Option Nat)) : String :=
  let numParts := Gen.historySizeJsonTags.filterMap fun (f, key) =>
    match oc.m.nums.find? (·.1 == f) with
    | some (_, v) => some s!"{key}={v}"
    | none => none
  let witParts := (witnessFieldNames.zip wits).filterMap fun (f, w) =>
    match Gen.historySizeJsonTags.find? (·.1 == f), w with
    | some (_, key), .null => some s!"{key}=s{hexS nullHex}"
    | some (_, key), .some o d =>
      let str := if d.isEmpty then Bytes.ofString o else Bytes.ofString o ++ Bytes.ofString " (" ++ d ++ Bytes.ofString ")"
      some s!"{key}=s{Bytes.toHex (Bytes.jsonRoundTrip str)}"
    | _, _ => none
  let gm := groups.foldl (fun (acc : List (String × Nat)) (s, _, t) => match t with
    | some c => if acc.any (·.1 == s) then acc.map (fun p => if p.1 == s then (s, c) else p) else acc ++ [(s, c)]
    | none => acc) []
  let gparts := (gm.map fun (s, c) => s!"{hexS s}~{c}").toArray.qsort (· < ·) |>.toList
  let all := numParts ++ witParts ++ [s!"reference_groups=m{";".intercalate gparts}"]
  ",".intercalate (all.toArray.qsort (· < ·)).toList

def v2Expected (oc : OutCase) : String :=
  -- CollectItems fills a map keyed by symbol: a later item with the same symbol replaces an earlier one
  let m := oc.its.foldl (fun (acc : List Item) i => if acc.any (·.symbol == i.symbol) then acc.map (fun j => if j.symbol == i.symbol then i else j) else acc ++ [i]) []
  let parts := m.map fun i =>
    let sc := rn53 i.scaleNum i.scaleDen
    -- reduce the dyadic to lowest terms as big.Rat prints it
    let g := Nat.gcd sc.num sc.den
    ":".intercalate [hexS i.symbol, toString i.value.n, hexS i.unit, hexS i.humaner, s!"{sc.num / g}/{sc.den / g}", "1",
      hexS i.objectName, Bytes.toHex (Bytes.jsonRoundTrip i.objectDescription), hexS i.description]
  ",".intercalate (parts.toArray.qsort (· < ·)).toList

def outputEngine : Engine := fun inp obs =>
  match inp, obs with
  | [numS, witS, grpS, t1S, t2S, styleS], [tab1, tab2, v1, v2] =>
    match (numS.splitOn ",").mapM String.toNat?, (witS.splitOn ",").mapM parseWit, parseGroups grpS, t1S.toNat?, t2S.toNat?, styleS.toNat? with
    | some nums, some wits, some groups, some b1, some b2, some style =>
      let oc := mkCase nums wits groups style
      let thr1 := thrOfBits b1
      let thr2 := thrOfBits b2
      let model := fun thr => match tableString thr oc.contents with
        | some b => Bytes.toHex b
        | none => "panic"
      let m1 := model thr1
      let m2 := model thr2
      let unsafeB := fun (b : Bytes) => b.contains 10 || b.contains 124 || b.contains 91
      let nastyName := groups.any (fun g => unsafeB g.2.1) ||
        (style == 2 && wits.any (fun w => match w with | .some _ d => unsafeB d | _ => false))
      -- 1. property-level judge of both tables
      match judgeTable oc thr1 tab1, judgeTable oc thr2 tab2 with
      | some (p, why), _ =>
        if nastyName && m1 == tab1 then .known "F13" s!"a name containing LF, '|' or '[' is written unescaped into the table: {why}"
        else .viol p s!"threshold bits {b1}: {why}"
      | _, some (p, why) =>
        if nastyName && m2 == tab2 then .known "F13" s!"a name containing LF, '|' or '[' is written unescaped into the table: {why}"
        else .viol p s!"threshold bits {b2}: {why}"
      | none, none =>
        -- 2. JSON carries the same numbers
        let e1 := v1Expected oc wits groups
        let e2 := v2Expected oc
        -- a saturated counter must appear as its capacity in JSON (C05)
        let tags := if nums.any (fun n => n == 4294967295 || n == 18446744073709551615) then "C11,C19,C05" else "C11,C19"
        if v1 != e1 then .viol tags s!"JSON v1 {v1} differs from the measurement {e1}"
        else if v2 != e2 then .viol tags s!"JSON v2 {v2} differs from the metric table / measurement {e2}"
        else if m1 != tab1 || m2 != tab2 then .diff "(table bytes)" "table layout differs from the model (values, units and markers agree)"
        else .ok
    | _, _, _, _, _, _ => .bad "decode"
  | _, _ => .bad "arity"

end GitSizer.Driver
