import GitSizer.Driver.Common
import GitSizer.Basic.Sat
import GitSizer.Model.Human
import GitSizer.Spec.Rounding
import GitSizer.Gen.Tables
/-! Engine `human`: `FormatNumber`/`Format` against the exact integer model, and every observed
    rendering judged against the C12 specification (`Spec/Rounding.lean`). -/
namespace GitSizer.Driver
open GitSizer GitSizer.Human

def prefixesOf (sys : String) : List Human.Prefix :=
  if sys == "binary" then Gen.Tables.binaryPrefixes else Gen.Tables.metricPrefixes

def decodeStr (h : String) : Option String :=
  (Bytes.ofHex h).bind (fun b => String.fromUTF8? (ByteArray.mk b.toArray))

/-- judge one observed (numeral, unitString) for value n; returns none if fine -/
def judgeHuman (pfx : List Human.Prefix) (n : Nat) (unit numeral unitStr : String) : Option (String × Bool × String) :=
  match Spec.parseRendering pfx unit numeral unitStr with
  | none => some ("C12", false, s!"rendering '{numeral}' '{unitStr}' of {n} is not a numeral followed by a known prefix")
  | some r =>
    match Spec.checkRendering pfx n r with
    | .ok => none
    | .halfUnitOnly excess =>
      -- recorded finding F11: n ≥ 2^53 and the excess over half a unit is below 10^-6 unit
      if n ≥ 2^53 ∧ excess * 1000000 ≤ r.mult then some ("C12", true, s!"half-unit bound exceeded for {n} -> '{numeral} {unitStr}' (n >= 2^53, float64 conversion)")
      else some ("C12", false, s!"'{numeral} {unitStr}' differs from {n} by more than half a unit of the last digit")
    | .bad why => some ("C12", false, s!"{n} -> '{numeral} {unitStr}': {why}")

def humanEngine : Engine := fun inp obs =>
  match inp, obs with
  | [sys, s1, s2], [a1, u1, b1, v1, c1, w1, a2, u2] =>
    match getNat s1, getNat s2, decodeStr a1, decodeStr u1, decodeStr b1, decodeStr v1, decodeStr c1, decodeStr w1, decodeStr a2, decodeStr u2 with
    | some n1, some n2, some a1, some u1, some b1, some v1, some c1, some w1, some a2, some u2 =>
      let pfx := prefixesOf sys
      -- model
      let m1 := Human.formatNumber pfx n1 "B"
      let m2 := Human.formatNumber pfx n2 "B"
      let m64 := Human.format pfx n1 (n1 == c64) "B"
      let n32 := clamp c32 n1
      let m32 := Human.format pfx n32 (n32 == c32) ""
      let modelEq := m1 == (a1, u1) && m2 == (a2, u2) && m64 == (b1, v1) && m32 == (c1, w1)
      -- judge
      let j1 := judgeHuman pfx n1 "B" a1 u1
      let j2 := judgeHuman pfx n2 "B" a2 u2
      let jm : Option (String × Bool × String) :=
        match Spec.parseRendering pfx "B" a1 u1, Spec.parseRendering pfx "B" a2 u2 with
        | some r1, some r2 =>
          let (lo, hi) := if n1 ≤ n2 then (r1, r2) else (r2, r1)
          if Spec.magLe lo hi then none else some ("C12", false, s!"not monotone: {n1} -> '{a1} {u1}', {n2} -> '{a2} {u2}'")
        | _, _ => none
      let j64 : Option (String × Bool × String) :=
        if n1 == c64 then (if b1 == "∞" ∧ v1 == "B" then none else some ("C05,C11", false, s!"saturated 64-bit counter rendered '{b1} {v1}', not the infinity sign"))
        else if (b1, v1) == (a1, u1) then none else some ("C12,C11", false, s!"Format and FormatNumber differ for {n1}")
      let j32 : Option (String × Bool × String) :=
        if n32 == c32 then (if c1 == "∞" ∧ w1 == "" then none else some ("C05,C11", false, s!"saturated 32-bit counter rendered '{c1} {w1}', not the infinity sign"))
        else judgeHuman pfx n32 "" c1 w1
      let js := [j1, j2, jm, j64, j32].filterMap id
      match js.find? (fun j => !j.2.1) with
      | some (p, _, why) => .viol p why
      | none =>
        match js.head? with
        | some (_, _, why) => .known "F11" why
        | none => if modelEq then .ok else .diff s!"{m1} {m2} {m64} {m32}" "rendering differs from the exact float model"
    | _, _, _, _, _, _, _, _, _, _ => .bad "decode"
  | _, _ => .bad "arity"

end GitSizer.Driver
