import GitSizer.Driver.Refs
import GitSizer.Model.Regex
/-! Engine `regex`: the real `git.RegexpFilter` against `Spec/Regex.FullMatch` (decided by `matchB`,
    `Proofs/Regex.matchB_iff`). For a pattern inside the fragment that `Regex.parse` reads and an ASCII
    name the Lean definition is the judge; Go's own answers for `^(?:p)$` and the naive `^p$` (the oracle
    bits that the `refs` engine relies on) are checked against the same matcher. -/
namespace GitSizer.Driver
open GitSizer GitSizer.Regex

def regexEngine : Engine := fun inp obs =>
  match inp with
  | [ph, namesS, oracleS] =>
    match Bytes.ofHex ph, (splitList namesS ",").mapM Bytes.ofHex, parseOracle oracleS with
    | some p, some names, some [row] =>
      if obs == ["panic"] then .viol "C06" "RegexpFilter panics" else
      let implBits : Option (List Bool) := match obs with
        | ["ok", b] => some (b.toList.map (· == '1'))
        | ["ok"] => some []
        | _ => none
      -- the implementation against Go's own full match (the reference the `refs` engine uses)
      let goFull := row.bits.map (· % 2 == 1)
      let goNaive := row.bits.map (· / 2 == 1)
      if implBits.isNone != !row.okFull then .viol "C06" s!"RegexpFilter accepts the pattern: {implBits.isSome}; Go compiles ^(?:p)$: {row.okFull}" else
      if row.okFull && implBits != some goFull then .viol "C06" s!"RegexpFilter {implBits}, Go's ^(?:p)$ {goFull}" else
      match parse p with
      | none => .ok "trivial"         -- outside the fragment of the Lean matcher
      | some re =>
        match implBits with
        | none => .viol "C06" "RegexpFilter rejects a pattern of the fragment that Model/Regex.parse reads"
        | some bits =>
          let idx := List.range names.length
          let wrong := idx.filter fun i =>
            let w := names.getD i []
            asciiOnly w && bits.getD i false != matchB re w
          if let some i := wrong.head? then
            .viol "C06" s!"name {Bytes.toHex (names.getD i [])}: the filter says {bits.getD i false}, FullMatch (Spec/Regex) says {matchB re (names.getD i [])}"
          else
          -- the naive anchoring ^p$ under MatchString (a search): only a check of the oracle
          match parse ([94] ++ p ++ [36]) with
          | some rn =>
            if !row.okNaive then .bad "Go rejects ^p$ although the Lean reader accepts it" else
            let wrongN := idx.filter fun i =>
              let w := names.getD i []
              asciiOnly w && goNaive.getD i false != searchB rn w
            if let some i := wrongN.head? then
              .bad s!"oracle: name {Bytes.toHex (names.getD i [])}: Go's ^p$ says {goNaive.getD i false}, Search (Spec/Regex) says {searchB rn (names.getD i [])}"
            else .ok
          | none => .ok
    | _, _, _ => .bad "decode"
  | _ => .bad "arity"

end GitSizer.Driver
