import GitSizer.Driver.Common
import GitSizer.Basic.Sat
import GitSizer.Gen.Counts
/-! Engine `counts`: the REGENERATED `Gen.*` definitions of counts/counts.go executed against the
    Go functions (this validates the translator), and every observed result judged against the
    saturating / max specification over `Nat`. -/
namespace GitSizer.Driver
open GitSizer

def b2s (b : Bool) : String := if b then "1" else "0"

/-- the specification over `Nat`: what the property says the result must be -/
def countsSpec (op : String) (a b : Nat) : Option (List String) :=
  match op with
  | "new32" => some [toString (clamp c32 a)]
  | "plus32" | "inc32" => some [toString (sat c32 a b)]
  | "nec32" => some [toString (max a b), b2s (decide (a < b))]
  | "pos32" => some [toString (max a b), b2s (decide (a ≤ b))]
  | "u64of32" => some [toString a, b2s (decide (a = c32))]
  | "new64" => some [toString (clamp c64 a)]
  | "plus64" | "inc64" => some [toString (sat c64 a b)]
  | "nec64" => some [toString (max a b), b2s (decide (a < b))]
  | "pos64" => some [toString (max a b)]   -- flag of Count64.AdjustMaxIfPossible: unused (F14), not judged
  | "u64of64" => some [toString a, b2s (decide (a = c64))]
  | _ => none

def countsModel (op : String) (a b : Nat) : Option (List String) :=
  let a32 := BitVec.ofNat 32 a; let b32 := BitVec.ofNat 32 b
  let a64 := BitVec.ofNat 64 a; let b64 := BitVec.ofNat 64 b
  match op with
  | "new32" => some [toString (Gen.NewCount32 a64).toNat]
  | "plus32" => some [toString (Gen.Count32.Plus a32 b32).toNat]
  | "inc32" => some [toString (Gen.Count32.Increment a32 b32).toNat]
  | "nec32" => let r := Gen.Count32.AdjustMaxIfNecessary a32 b32; some [toString r.1.toNat, b2s r.2]
  | "pos32" => let r := Gen.Count32.AdjustMaxIfPossible a32 b32; some [toString r.1.toNat, b2s r.2]
  | "u64of32" => let r := Gen.Count32.ToUint64 a32; some [toString r.1.toNat, b2s r.2]
  | "new64" => some [toString (Gen.NewCount64 a64).toNat]
  | "plus64" => some [toString (Gen.Count64.Plus a64 b64).toNat]
  | "inc64" => some [toString (Gen.Count64.Increment a64 b64).toNat]
  | "nec64" => let r := Gen.Count64.AdjustMaxIfNecessary a64 b64; some [toString r.1.toNat, b2s r.2]
  | "pos64" => let r := Gen.Count64.AdjustMaxIfPossible a64 b64; some [toString r.1.toNat, b2s r.2]
  | "u64of64" => let r := Gen.Count64.ToUint64 a64; some [toString r.1.toNat, b2s r.2]
  | _ => none

def countsEngine : Engine := fun inp obs =>
  match inp with
  | [op, sa, sb] =>
    match getNat sa, getNat sb with
    | some a, some b =>
      match countsModel op a b, countsSpec op a b with
      | some m, some s =>
        let specOk := obs.take s.length == s
        if !specOk then .viol (if op.startsWith "nec" || op.startsWith "pos" then "C02,C05" else "C05") s!"{op}({a},{b}) observed {obs} but the specification requires {s}"
        else if m != obs then .diff (joinTab m) "generated definition differs from the Go function"
        else .ok
      | _, _ => .bad "unknown op"
    | _, _ => .bad "numbers"
  | _ => .bad "arity"

end GitSizer.Driver
