import GitSizer.Driver.Common
import GitSizer.Spec.Tally
/-! Engine `refs`: the real `RefGroupBuilder` + pflag + `Finish` + `Categorize` + `Groups` against
    the model (`Model/RefGroups`) and the specification (`Spec/Select`, `Spec/Tally`). -/
namespace GitSizer.Driver
open GitSizer GitSizer.RefFilter GitSizer.RefGroups

def splitList (s : String) (sep : String) : List String := if s == "-" || s.isEmpty then [] else s.splitOn sep

structure OracleRow where
  pat : Bytes
  okFull : Bool
  okNaive : Bool
  bits : List Nat   -- per reference: bit0 = full match, bit1 = naive anchoring matches

def parseOracle (s : String) : Option (List OracleRow) :=
  (splitList s ",").mapM fun row =>
    match row.splitOn ":" with
    | [ph, ok, bits] => do
      let p ← Bytes.ofHex ph
      let okl := ok.toList
      pure ⟨p, okl.head? == some '1', okl.getLast? == some '1', bits.toList.map (fun c => c.toNat - 48)⟩
    | [ph, ok] => do
      let p ← Bytes.ofHex ph
      let okl := ok.toList
      pure ⟨p, okl.head? == some '1', okl.getLast? == some '1', []⟩
    | _ => none

def mkEnv (rows : List OracleRow) (refs : List Bytes) (full : Bool) : Env :=
  { reOK := fun p => match rows.find? (·.pat == p) with
      | some r => if full then r.okFull else r.okNaive
      | none => false
    reM := fun p r => match rows.find? (·.pat == p), refs.idxOf? r with
      | some row, some i => let b := row.bits.getD i 0; if full then b % 2 == 1 else b / 2 == 1
      | _, _ => false }

def parseCfg (s : String) : Option CfgEntries :=
  (splitList s ",").mapM fun e =>
    match e.splitOn ":" with
    | [k, v] => do pure ((← Bytes.ofHex k), (← Bytes.ofHex v))
    | _ => none

def parseOpts (s : String) : Option (List CmdOpt) :=
  (splitList s ",").mapM fun o =>
    match o.splitOn "=" with
    | [f] => some ⟨f, none⟩
    | [f, v] => (Bytes.ofHex v).map (fun b => ⟨f, some b⟩)
    | _ => none

def encGroups (gs : List (Bytes × Bytes)) : String :=
  if gs.isEmpty then "-" else ",".intercalate (gs.map fun g => s!"{Bytes.toHex g.1}:{Bytes.toHex g.2}")

def encCat (c : Cat) : String :=
  (if c.walk then "1" else "0") ++ ":" ++ (if c.symbols.isEmpty then "-" else "/".intercalate (c.symbols.map Bytes.toHex))

/-- symbols as a multiset: sort the hex strings -/
def normCat (s : String) : String :=
  match s.splitOn ":" with
  | [w, syms] => w ++ ":" ++ "/".intercalate ((syms.splitOn "/").toArray.qsort (· < ·)).toList
  | _ => s

/-- the whole run on the model side, for a given regexp semantics -/
def refsRun (lk : Lookup) (env : Env) (cfg : CfgEntries) (os : List CmdOpt) (hasRoots : Bool) (refs : List Bytes)
    (catf : Env → Store → List (Opt Pat) → Bool → Bytes → Cat) : List String :=
  match newBuilderWith lk env cfg with
  | .error _ => ["err"]
  | .ok st =>
    match applyOpts env st os with
    | .error _ => ["err"]
    | .ok opts =>
      match groupsOut st with
      | none => ["err"]
      | some gs =>
        let cats := refs.map (fun r => encCat (catf env st opts (!hasRoots) r))
        ["ok", encGroups gs, if cats.isEmpty then "-" else ",".intercalate cats]

def refsEngine : Engine := fun inp obs =>
  match inp with
  | [cfgS, optS, _spell, rootsS, refsS, oracleS] =>
    match parseCfg cfgS, parseOpts optS, (splitList refsS ",").mapM Bytes.ofHex, parseOracle oracleS with
    | some cfg, some os, some refs, some rows =>
      let hasRoots := rootsS == "1"
      let envModel := mkEnv rows refs true     -- the code anchors as "^(?:" + p + ")$" (after the repair of F1)
      let envSpec := mkEnv rows refs true      -- a /REGEXP/ must match the entire reference name
      let m := refsRun lookupCode envModel cfg os hasRoots refs categorize
      let s := refsRun Spec.lookupExact envSpec cfg os hasRoots refs Spec.categorizeSpec
      if obs == ["panic"] then .viol "C07,C06" "reference machinery panics"
      else
      -- judge: error status and groups exactly; categories up to symbol order
      let normalize := fun (l : List String) => match l with
        | ["ok", g, c] => ["ok", g, ",".intercalate ((splitList c ",").map normCat)]
        | x => x
      if normalize obs != normalize s then
        -- which property? walk bits differ -> C06; symbols differ -> C07
        let walks : List String → List String := fun l => match l with
          | ["ok", _, c] => (splitList c ",").map (fun (x : String) => (x.take 1).toString)
          | x => x
        let tag := if walks obs != walks s then "C06,C07" else "C07"
        -- the reading of gitconfig (C15) is in play when the listing holds the same key several
        -- times (order and multiplicity of entries) or when the set of groups itself differs
        let keys := cfg.map (·.1)
        let groupsOf : List String → List String := fun l => match l with | ["ok", g, _] => [g] | x => x
        let tag := if keys.eraseDups.length != keys.length || groupsOf obs != groupsOf s then tag ++ ",C15" else tag
        .viol tag s!"observed {obs.take 1} {obs.drop 2}; specification {s.take 1} {s.drop 2}"
      else if m != obs then .diff (joinTab m) "model differs from implementation"
      else if obs == ["err"] then .ok "trivial"
      else
        -- F10: two different groups sharing one symbol merge their tallies
        let syms := match obs with | ["ok", g, _] => (splitList g ",").map (fun (x : String) => (x.splitOn ":").headD "") | _ => []
        if syms.eraseDups.length != syms.length then
          .known "F10" "a user refgroup shares its symbol with a synthetic 'other'/'ignored' bucket: their tallies merge"
        else .ok
    | _, _, _, _ => .bad "decode"
  | _ => .bad "arity"

end GitSizer.Driver
