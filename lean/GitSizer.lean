-- Root of the `GitSizer` library: model, specs, proofs and property theorems.
import GitSizer.Gen.Counts
import GitSizer.Gen.Sizes
