#!/usr/bin/env python3
"""check.py <Cxx> [--tier quick|thorough] [--replay FILE]

One run = regenerate the Lean `Gen/` modules from /repo's working tree, re-check the property's
theorems with the Lean kernel (+ axiom audit), rebuild the Go correspondence driver from /repo
(build tag `verif`, injected with -overlay: nothing is written to /repo), run the property's
engines (implementation vs. executable Lean model vs. specification), classify, write evidence.

exit 0: property held on everything explored.  exit 1: `VIOLATION property=<id> replay=<path>`.
"""
import argparse, fcntl, hashlib, json, os, re, shutil, subprocess, sys, tempfile, time

V = os.path.dirname(os.path.abspath(__file__))
REPO = os.environ.get("VERIF_REPO", "/repo")
BUILD = os.path.join(V, "build")
BIN = os.path.join(BUILD, "bin")
LEAN = os.path.join(V, "lean")
GEN = os.path.join(LEAN, "GitSizer", "Gen")
GOENV = dict(os.environ, GOFLAGS="-mod=mod", GOPROXY="off", GOSUMDB="off", GOTOOLCHAIN="local",
             CGO_ENABLED=os.environ.get("CGO_ENABLED", "0"))
NCPU = os.cpu_count() or 4

sys.path.insert(0, V)
from props import PROPS  # noqa: E402  per-property configuration

ALLOWED_AXIOMS = {"propext", "Classical.choice", "Quot.sound"}
FORBIDDEN = re.compile(r"sorry|\badmit\b|^axiom |native_decide|bv_decide|implemented_by|unsafe |maxHeartbeats 0", re.M)


def log(*a):
    print(*a, file=sys.stderr, flush=True)


def run(cmd, cwd=None, env=None, timeout=None, inp=None):
    p = subprocess.run(cmd, cwd=cwd, env=env, timeout=timeout, input=inp,
                       stdout=subprocess.PIPE, stderr=subprocess.PIPE, text=True)
    return p.returncode, p.stdout, p.stderr


# ------------------------------------------------------------------ build steps

def build_tools():
    os.makedirs(BIN, exist_ok=True)
    for t in ("go2lean", "gofacts", "gostr2lean"):
        rc, o, e = run(["go", "build", "-o", os.path.join(BIN, t), "./" + t], cwd=os.path.join(V, "tools"), env=GOENV)
        if rc != 0:
            raise SystemExit(f"building tools/{t} failed:\n{e}")


def gen_deps(modules):
    """The regenerated modules (Gen.*) that the given Lean modules import, transitively."""
    seen, todo, gens = set(), list(modules), set()
    while todo:
        m = todo.pop()
        if m in seen:
            continue
        seen.add(m)
        if m.startswith("GitSizer.Gen."):
            gens.add(m.split(".")[-1] + ".lean")
            continue
        path = os.path.join(LEAN, *m.split(".")) + ".lean"
        if not os.path.exists(path):
            continue
        for line in open(path):
            mm = re.match(r"^import\s+(GitSizer\.\S+)", line)
            if mm:
                todo.append(mm.group(1))
    return gens


FAILED_GEN = set()   # regenerated files for which the translator failed on this run (baseline copy in use)


def regenerate(needed=None):
    """Regenerate Gen/*.lean from /repo. Returns a list of broken-obligation messages (only for the
    regenerated files in `needed`, if given: a translator failing on a file that the property's
    theorems do not use is not this property's broken obligation)."""
    broken = []
    FAILED_GEN.clear()
    tmp = tempfile.mkdtemp(prefix="gen", dir=BUILD)
    try:
        for tool, files, extra in (("go2lean", ["Counts.lean", "Sizes.lean"], []), ("gofacts", ["Tables.lean", "Cmds.lean", "Flows.lean"], []),
                                   ("gostr2lean", ["Strs.lean"], ["strs"]), ("gostr2lean", ["Objs.lean"], ["objs"])):
            rc, o, e = run([os.path.join(BIN, tool), REPO, tmp] + extra)
            if rc != 0:
                FAILED_GEN.update(files)
                if needed is None or any(f in needed for f in files):
                    broken.append(f"{tool} cannot translate the current source: {e.strip().splitlines()[-1] if e.strip() else 'failed'}")
                else:
                    log(f"note: {tool} cannot translate the current source (not used by this property's theorems; baseline copy kept for the driver)")
                # fall back to the committed baseline so that the search can still run
                for f in files:
                    shutil.copy(os.path.join(LEAN, "gen_baseline", f), os.path.join(tmp, f))
        os.makedirs(GEN, exist_ok=True)
        for f in os.listdir(tmp):
            dst = os.path.join(GEN, f)
            new = open(os.path.join(tmp, f)).read()
            if not os.path.exists(dst) or open(dst).read() != new:
                with open(dst, "w") as fh:
                    fh.write(new)
    finally:
        shutil.rmtree(tmp, ignore_errors=True)
    return broken


def lake_build(targets):
    rc, o, e = run(["lake", "build"] + targets, cwd=LEAN, timeout=3000)
    return rc, o + e


def gen_fallback(files):
    for f in files:
        shutil.copy(os.path.join(LEAN, "gen_baseline", f), os.path.join(GEN, f))


def build_driver_model():
    """gsmodel must always be buildable; if the regenerated Gen does not compile, fall back."""
    rc, out = lake_build(["gsmodel"])
    if rc != 0:
        msg = "the regenerated Gen/*.lean no longer compiles together with the model driver: " + first_error(out)
        gen_fallback(["Counts.lean", "Sizes.lean", "Tables.lean", "Cmds.lean", "Strs.lean", "Objs.lean", "Flows.lean"])
        # from here on every Gen file is the baseline copy: theorems over them say nothing about the current source
        FAILED_GEN.update(["Counts.lean", "Sizes.lean", "Tables.lean", "Cmds.lean", "Strs.lean", "Objs.lean", "Flows.lean"])
        rc2, out2 = lake_build(["gsmodel"])
        if rc2 != 0:
            raise SystemExit("gsmodel does not build even with baseline Gen:\n" + out2[-3000:])
        return [msg]
    return []


def first_error(out):
    for line in out.splitlines():
        if "error" in line:
            return line.strip()[:400]
    return out.strip()[-400:]


def theorem_names(module):
    """(namespace-qualified) names of all theorems in a Props module file."""
    path = os.path.join(LEAN, *module.split(".")) + ".lean"
    src = open(path).read()
    names, ns = [], []
    for line in src.splitlines():
        m = re.match(r"^namespace\s+(\S+)", line)
        if m:
            ns.append(m.group(1)); continue
        m = re.match(r"^end\s+(\S+)", line)
        if m and ns and ns[-1] == m.group(1):
            ns.pop(); continue
        m = re.match(r"^(?:@\[[^\]]*\]\s*)?theorem\s+(\S+)", line)
        if m:
            names.append(".".join(ns + [m.group(1)]))
    return names, src


def strip_comments(src):
    src = re.sub(r"/-.*?-/", "", src, flags=re.S)
    return re.sub(r"--.*", "", src)


def prove(pid, cfg, broken):
    """Build the property's theorem modules and audit axioms. Returns (obligations, discharged, axioms, details)."""
    modules = cfg["modules"]
    obligations, discharged, axioms_seen, details = 0, 0, set(), []
    rc, out = lake_build(modules)
    built = rc == 0
    if not built:
        broken.append("lake build " + " ".join(modules) + " failed: " + first_error(out))
        details.append(out[-4000:])
    names = []
    stale = set()   # theorems checked against a baseline copy only: their regenerated input could not be produced
    for m in modules:
        ns, src = theorem_names(m)
        names += ns
        if gen_deps([m]) & FAILED_GEN:
            stale.update(ns)
        if FORBIDDEN.search(strip_comments(src)):
            broken.append(f"{m} contains a forbidden construct (sorry/admit/axiom/native_decide/bv_decide/...)")
    # textual scan of the proof modules the property modules import
    for root, _, files in os.walk(os.path.join(LEAN, "GitSizer")):
        if os.sep + "Gen" in root:
            continue
        for f in files:
            if f.endswith(".lean"):
                if FORBIDDEN.search(strip_comments(open(os.path.join(root, f)).read())):
                    broken.append(f"{os.path.join(root, f)} contains a forbidden construct")
    obligations = len(names)
    if built and names:
        audit = os.path.join(BUILD, f"Audit_{pid}.lean")
        with open(audit, "w") as fh:
            for m in modules:
                fh.write(f"import {m}\n")
            for n in names:
                fh.write(f"#print axioms {n}\n")
        rc, o, e = run(["lake", "env", "lean", audit], cwd=LEAN, timeout=1200)
        if rc != 0:
            broken.append("axiom audit failed: " + first_error(o + e))
        else:
            # parse "'name' depends on axioms: [a, b]" / "'name' does not depend on any axioms"
            text = re.sub(r"\s+", " ", o)
            for m in re.finditer(r"'([^']+)' (does not depend on any axioms|depends on axioms: \[([^\]]*)\])", text):
                ax = set(a.strip() for a in (m.group(3) or "").split(",") if a.strip())
                axioms_seen |= ax
                if m.group(1) in stale:
                    continue    # not discharged: proved of the baseline, not of the current source
                if ax <= ALLOWED_AXIOMS:
                    discharged += 1
                else:
                    broken.append(f"theorem {m.group(1)} depends on non-standard axioms {sorted(ax - ALLOWED_AXIOMS)}")
    return obligations, discharged, sorted(axioms_seen), details, names


def build_go():
    """Build the correspondence driver and the real binary from /repo's working tree."""
    rc, o, e = run([sys.executable, os.path.join(V, "harness", "overlay.py"), os.path.join(BUILD, "overlay.json")])
    if rc != 0:
        raise SystemExit("overlay.py failed: " + e)
    errs = []
    for f in ("drv", "git-sizer"):
        p = os.path.join(BIN, f)
        if os.path.exists(p):
            os.remove(p)
    rc, o, e = run(["go", "build", "-tags", "verif", "-overlay", os.path.join(BUILD, "overlay.json"),
                    "-o", os.path.join(BIN, "drv"), "./internal/verifdrv"], cwd=REPO, env=GOENV, timeout=900)
    if rc != 0:
        errs.append("correspondence driver does not build against the current source: " + first_error(e))
    rc, o, e = run(["go", "build", "-o", os.path.join(BIN, "git-sizer"), "."], cwd=REPO, env=GOENV, timeout=900)
    if rc != 0:
        errs.append("git-sizer does not build: " + first_error(e))
    # the same binary with the race detector (needs cgo); engines run it when VERIF_RACE=1
    p = os.path.join(BIN, "git-sizer-race")
    if os.path.exists(p):
        os.remove(p)
    rc, o, e = run(["go", "build", "-race", "-o", p, "."], cwd=REPO, env=dict(GOENV, CGO_ENABLED="1"), timeout=900)
    if rc != 0 and not errs:
        errs.append("git-sizer does not build with -race: " + first_error(e))
    return errs


# ------------------------------------------------------------------ engines

def run_engine(engine, seed, n, tier, start=0, shards=1, extra_env=None):
    """Generate+execute n cases with the Go driver and judge them with gsmodel. Returns list of
    (caseline, verdictline) and the class histogram."""
    per = (n + shards - 1) // shards
    procs = []
    # scratch repositories live under a SHORT path that does not depend on where /verif is checked out: one family of
    # generated reference names is as long as the path limit allows (and must stay above 4 044 bytes to be of use)
    tmpd = tempfile.mkdtemp(prefix=f"v{engine[:3]}", dir=os.environ.get("VERIF_TMP", "/tmp"))
    env = dict(os.environ)
    env["PATH"] = BIN + os.pathsep + env.get("PATH", "")
    env["VERIF_BIN"] = BIN
    env["VERIF_SCRATCH"] = tmpd
    env["GOMEMLIMIT"] = "4GiB"
    if extra_env:
        env.update(extra_env)
    for s in range(shards):
        cases = os.path.join(tmpd, f"cases{s}.txt")
        stats = os.path.join(tmpd, f"stats{s}.txt")
        cnt = min(per, n - s * per)
        if cnt <= 0:
            break
        fh = open(cases, "w")
        p = subprocess.Popen([os.path.join(BIN, "drv"), "gen", "-engine", engine, "-seed", str(seed), "-n", str(cnt),
                              "-start", str(start + s * per), "-tier", tier, "-stats", stats],
                             stdout=fh, stderr=subprocess.PIPE, env=env, cwd=tmpd)
        procs.append((p, fh, cases, stats))
    results, hist, errors = [], {}, []
    for p, fh, cases, stats in procs:
        try:
            _, err = p.communicate(timeout=7200)
        except subprocess.TimeoutExpired:
            p.kill(); err = b"timeout"
        fh.close()
        if p.returncode != 0:
            errors.append(f"driver exited {p.returncode}: {err.decode(errors='replace')[-500:]}")
        with open(cases) as cf:
            m = subprocess.run([os.path.join(LEAN, ".lake", "build", "bin", "gsmodel")], stdin=cf,
                               stdout=subprocess.PIPE, stderr=subprocess.PIPE, text=True)
        if m.returncode != 0:
            errors.append("gsmodel failed: " + m.stderr[-500:])
        clines = open(cases).read().splitlines()
        vlines = m.stdout.splitlines()
        if len(clines) != len(vlines):
            errors.append(f"gsmodel produced {len(vlines)} verdicts for {len(clines)} cases")
        results += list(zip(clines, vlines))
        if os.path.exists(stats):
            for line in open(stats):
                k, v = line.rstrip("\n").split("\t")
                hist[k] = hist.get(k, 0) + int(v)
    shutil.rmtree(tmpd, ignore_errors=True)
    return results, hist, errors


def run_lines(lines):
    """Re-execute given case lines on the implementation, then judge."""
    env = dict(os.environ)
    env["PATH"] = BIN + os.pathsep + env.get("PATH", "")
    env["VERIF_BIN"] = BIN
    tmpd = tempfile.mkdtemp(prefix="vrpl", dir=os.environ.get("VERIF_TMP", "/tmp"))
    env["VERIF_SCRATCH"] = tmpd
    p = subprocess.run([os.path.join(BIN, "drv"), "exec"], input="\n".join(lines) + "\n", stdout=subprocess.PIPE,
                       stderr=subprocess.PIPE, text=True, env=env, cwd=tmpd)
    clines = p.stdout.splitlines()
    m = subprocess.run([os.path.join(LEAN, ".lake", "build", "bin", "gsmodel")], input=p.stdout,
                       stdout=subprocess.PIPE, stderr=subprocess.PIPE, text=True)
    shutil.rmtree(tmpd, ignore_errors=True)
    return list(zip(clines, m.stdout.splitlines())), p.stderr + m.stderr


def verdict_of(vline):
    f = vline.split("\t")
    return (f[1] if len(f) > 1 else "bad"), f[2:] if len(f) > 2 else []


def case_key(cline):
    f = cline.split("\t")
    inp = f[2:]
    if "=>" in inp:
        inp = inp[:inp.index("=>")]
    return f[0] + "\t" + "\t".join(inp)


# ------------------------------------------------------------------ main

def load_known():
    p = os.path.join(V, "known_findings.json")
    if not os.path.exists(p):
        return {"findings": [], "fixed": []}
    return json.load(open(p))


def write_replay(pid, seed, idx, payload):
    d = os.path.join(V, "replays")
    os.makedirs(d, exist_ok=True)
    path = os.path.join(d, f"{pid}-{seed}-{idx}.json")
    with open(path, "w") as fh:
        json.dump(payload, fh, indent=1)
    return path


def main():
    ap = argparse.ArgumentParser()
    ap.add_argument("pid")
    ap.add_argument("--tier", default=os.environ.get("VERIF_TIER", "quick"))
    ap.add_argument("--replay")
    ap.add_argument("--no-prove", action="store_true", help="(development) skip the Lean obligations")
    args = ap.parse_args()
    pid, tier = args.pid, args.tier
    if tier not in ("quick", "thorough"):
        tier = "quick"
    seed = int(os.environ.get("VERIF_SEED", "1") or 1)
    cfg = PROPS[pid]
    t0 = time.time()
    os.makedirs(BUILD, exist_ok=True)
    lock = open(os.path.join(BUILD, ".lock"), "w")
    fcntl.flock(lock, fcntl.LOCK_EX)

    if not all(os.path.exists(os.path.join(BIN, t)) for t in ("go2lean", "gofacts", "gostr2lean")):
        build_tools()

    if args.replay:
        build_go()
        lake_build(["gsmodel"])
        rp = json.load(open(args.replay))
        lines = rp.get("cases", [])
        res, err = run_lines(lines)
        for c, v in res:
            print("CASE   ", c)
            print("VERDICT", v)
        if err.strip():
            print(err, file=sys.stderr)
        bad = [v for _, v in res if verdict_of(v)[0] in ("viol", "diff", "bad")]
        if rp.get("broken"):
            print("BROKEN ", rp["broken"])
        sys.exit(1 if bad or rp.get("broken") else 0)

    broken = []          # broken proof obligations / correspondences (strings)
    broken += regenerate(gen_deps(cfg["modules"]))
    broken += build_driver_model()
    obligations = discharged = 0
    axioms, names = [], []
    if not args.no_prove:
        obligations, discharged, axioms, details, names = prove(pid, cfg, broken)
        if tier == "thorough" and not broken:
            for m in cfg["modules"]:
                rc, o, e = run(["lake", "env", "leanchecker", m], cwd=LEAN, timeout=3000)
                if rc != 0:
                    broken.append(f"leanchecker rejected {m}: {first_error(o + e)}")
    # The model driver and its judges read the regenerated tables (chrome strings, prefix tables,
    # constants) by position. Theorems pin their shape; when ANY theorem over the regenerated modules
    # no longer holds (this property's or another's), the tables may no longer mean what the judges
    # assume, so the search is run with the pinned baseline tables (= the shape the specification was
    # written against) instead of producing expectations from misread data.
    judge_tables = "regenerated"
    if not args.no_prove:
        rc_all, out_all = lake_build(["GitSizer"])
        if rc_all != 0 or broken:
            gen_fallback(["Counts.lean", "Sizes.lean", "Tables.lean", "Cmds.lean", "Strs.lean", "Objs.lean", "Flows.lean"])
            rc2, out2 = lake_build(["gsmodel"])
            if rc2 != 0:
                raise SystemExit("gsmodel does not build with baseline Gen:\n" + out2[-3000:])
            judge_tables = "baseline (a theorem over the regenerated modules failed: " + first_error(out_all)[:200] + ")"
    go_errs = build_go()
    broken += go_errs

    known = load_known()
    known_ids = {k["id"]: k for k in known.get("findings", []) if k["property"] == pid}
    foreign_known = {k["id"] for k in known.get("findings", []) if k["property"] != pid}
    other_prop_viols = []

    evaluations = 0
    distinct = set()
    nontrivial = set()
    thm_instances = 0
    thm_by_engine = {}   # engine -> cases whose input was DECIDED to meet the hypotheses of the engine's theorem
    samples = []
    hist_all = {}
    viols, diffs, knowns, bads = [], [], {}, []
    engine_errors = []

    def absorb(results, engine):
        nonlocal evaluations, thm_instances
        for c, v in results:
            evaluations += 1
            k = hashlib.sha1(case_key(c).encode()).hexdigest()
            distinct.add(k)
            verdict, rest = verdict_of(v)
            if not (rest and rest[-1] == "trivial"):
                nontrivial.add(k)
            if verdict == "ok" and rest and rest[-1] == "thm":
                thm_instances += 1
                thm_by_engine[engine] = thm_by_engine.get(engine, 0) + 1
            if verdict == "viol":
                tags = rest[0].split(",") if rest else []
                if rest and pid not in tags and all(re.fullmatch(r"C\d+", t) for t in tags):
                    other_prop_viols.append((engine, c, v))   # concerns another property: reported by that property's check
                else:
                    viols.append((engine, c, v))
            elif verdict == "diff":
                diffs.append((engine, c, v))
            elif verdict == "known":
                fid = rest[0] if rest else "?"
                if fid in known_ids:
                    knowns.setdefault(fid, []).append((c, v))
                elif fid in foreign_known:
                    pass   # a recorded finding of another property
                else:
                    viols.append((engine, c, v))
            elif verdict == "bad":
                bads.append((engine, c, v))

    if not go_errs or os.path.exists(os.path.join(BIN, "drv")):
        if os.path.exists(os.path.join(BIN, "drv")):
            # 1. corpus first
            cdir = os.path.join(V, "corpus", pid)
            if os.path.isdir(cdir):
                lines = []
                for f in sorted(os.listdir(cdir)):
                    if f.endswith(".case"):
                        lines += [l for l in open(os.path.join(cdir, f)).read().splitlines() if l and not l.startswith("#")]
                if lines:
                    res, err = run_lines(lines)
                    if len(res) != len(lines):
                        engine_errors.append(f"corpus: {len(res)} results for {len(lines)} cases: {err[-300:]}")
                    absorb(res, "corpus")
                    if res:
                        samples.append({"corpus_case": res[0][0][:400], "verdict": res[0][1][:200]})
            # 2. generated cases
            for eng in cfg["engines"]:
                n = eng[tier]
                shards = min(NCPU, max(1, n // eng.get("per_shard", 2000)))
                res, hist, errs = run_engine(eng["name"], seed, n, tier, shards=shards, extra_env=eng.get("env"))
                engine_errors += [f"{eng['name']}: {x}" for x in errs]
                absorb(res, eng["name"])
                for k2, v2 in hist.items():
                    hist_all[f"{eng['name']}:{k2}"] = hist_all.get(f"{eng['name']}:{k2}", 0) + v2
                for c, v in res[:2]:
                    samples.append({"case": c[:600], "verdict": v[:200]})
    if engine_errors:
        broken.append("engine failure: " + "; ".join(engine_errors)[:800])
    if bads:
        broken.append(f"{len(bads)} case(s) could not be decoded by the model driver, first: {bads[0][2][:300]}")

    # widened search when only a correspondence/obligation is broken
    widened = 0
    if (broken or diffs) and not viols and os.path.exists(os.path.join(BIN, "drv")):
        for eng in cfg["engines"]:
            n = eng[tier] * 4
            shards = min(NCPU, max(1, n // eng.get("per_shard", 2000)))
            res, hist, errs = run_engine(eng["name"], seed + 7919, n, tier, shards=shards, extra_env=eng.get("env"))
            widened += len(res)
            absorb(res, eng["name"])
            if viols:
                break

    violations = 0
    out_lines = []
    for fid, items in sorted(knowns.items()):
        out_lines.append(f"KNOWN-FINDING: property={pid} {known_ids[fid]['what']} [{fid}; {len(items)} case(s) this run, e.g. {items[0][1].split(chr(9))[-1][:160]}]")
    if viols:
        eng, c, v = viols[0]
        path = write_replay(pid, seed, 0, {
            "property": pid, "kind": "failing-input", "engine": eng, "cases": [c], "verdict": v,
            "all_failing_cases": [x[1] for x in viols[:20]],
            "broken": broken, "how": f"python3 check.py {pid} --replay <this file>"})
        out_lines.append(f"VIOLATION property={pid} replay={path}")
        violations = len(viols)
    elif broken or diffs:
        what = list(broken)
        if diffs:
            what.append(f"correspondence {diffs[0][0]}: model and implementation disagree on {len(diffs)} case(s), first: {diffs[0][2][:300]}")
        path = write_replay(pid, seed, 0, {
            "property": pid, "kind": "no-failing-input-found", "broken": what,
            "cases": [d[1] for d in diffs[:20]], "widened_search_cases": widened,
            "how": f"python3 check.py {pid} --replay <this file>"})
        out_lines.append(f"VIOLATION property={pid} replay={path} no-failing-input-found")
        violations = max(1, len(diffs))

    ev = {
        "property_id": pid, "tier": tier, "seed": seed, "level": cfg.get("level", "proof"),
        "coverage": {
            "obligations": obligations, "discharged": discharged,
            "checker_cmd": f"cd lean && lake build {' '.join(cfg['modules'])} && lake env lean ../build/Audit_{pid}.lean  (# print axioms of every theorem)"
                           + (" && lake env leanchecker <module>" if tier == "thorough" else ""),
            "trusted_base": [
                "Lean 4.33.0 kernel" + (" (re-checked by leanchecker)" if tier == "thorough" else ""),
                "axioms used by the theorems of this property: " + (", ".join(axioms) if axioms else "none"),
                "tools/go2lean + tools/gofacts + tools/gostr2lean (source -> Lean: counts.go and the arithmetic of sizes.go as BitVec functions; string and object-parser functions in the Res monad; tables, call sites and the statement lists of every function and declaration of all non-test source files via go/parser + go/printer)",
                "correspondence driver (differential testing of the hand-written model against the Go code)",
            ] + cfg.get("trusted", []),
            "theorems": names,
            "evaluations": evaluations, "distinct_nontrivial": len(nontrivial),
            "rule": cfg.get("rule", "cases are generated from (VERIF_SEED, engine, case number); distinct = distinct canonical input; "
                                    "non-trivial = not flagged trivial by the engine's rule"),
            "samples": samples[:8], "input_distribution": hist_all,
            "known_findings_reproduced": {k: len(v) for k, v in knowns.items()},
            "cases_meeting_whole_run_theorem_hypotheses": thm_instances,
            "cases_meeting_theorem_hypotheses_by_engine": thm_by_engine,
            "violations_of_other_properties_seen": len(other_prop_viols),
            "broken": broken, "model_impl_disagreements": len(diffs), "widened_search_cases": widened,
            "judge_tables": judge_tables,
        },
        "assumptions": cfg.get("assumptions", []),
        "wall_s": round(time.time() - t0, 2), "violations": violations,
    }
    os.makedirs(os.path.join(V, "evidence"), exist_ok=True)
    with open(os.path.join(V, "evidence", f"{pid}.json"), "w") as fh:
        json.dump(ev, fh, indent=1)
    for l in out_lines:
        print(l)
    log(f"[{pid}] tier={tier} obligations={discharged}/{obligations} cases={evaluations} distinct_nontrivial={len(nontrivial)} "
        f"viol={len(viols)} diff={len(diffs)} known={sum(len(v) for v in knowns.values())} wall={ev['wall_s']}s")
    sys.exit(1 if violations else 0)


if __name__ == "__main__":
    main()
