#!/usr/bin/env python3
"""Regenerates MANIFEST.json from props.py (single source of truth for what is claimed)."""
import json, os, sys
V = os.path.dirname(os.path.abspath(__file__))
sys.path.insert(0, V)
from props import PROPS, NOT_APPLICABLE

ids = [json.loads(l)["id"] for l in open(os.path.join(V, "properties.jsonl"))]
checks = []
engines = {}
for pid in ids:
    if pid not in PROPS:
        continue
    c = PROPS[pid]
    checks.append({
        "property_id": pid,
        "quick_cmd": f"python3 check.py {pid} --tier quick",
        "thorough_cmd": f"python3 check.py {pid} --tier thorough",
        "evidence_file": f"/verif/evidence/{pid}.json",
        "replay_cmd_template": f"python3 check.py {pid} --replay {{path}}",
        "engine": "+".join(e["name"] for e in c["engines"]) or "lean-only",
        "level_claimed": {"category": c.get("level", "proof"), "text": c["level_text"], "design_ref": c.get("design_ref", "DESIGN.md §8 " + pid)},
        "level_note": c["level_note"],
        "technique": c["technique"],
    })
    for e in c["engines"]:
        engines.setdefault(e["name"], []).append(pid)
na = [{"property_id": p, "reason": NOT_APPLICABLE[p]} for p in ids if p not in PROPS]
m = {
    "version": 1,
    "setup_cmd": "sh /verif/setup.sh",
    "hooks": {
        "guard": "verif",
        "enable": "cd /repo && go build -tags verif -overlay /verif/build/overlay.json -o /verif/build/bin/drv ./internal/verifdrv   (harness sources live in /verif/harness and are injected by -overlay; nothing is committed to /repo)",
        "baseline_off_cmd": "cd /repo && go test -vet=off -count=1 ./...",
        "source_commits": [],
        "add_only": True,
    },
    "engines": [{"name": n, "path": "harness/drv (Go, in-process against /repo) + lean/GitSizer/Driver (Lean model + spec judge)",
                 "serves_properties": ps, "kind_free_text": "correspondence: implementation vs executable Lean model vs specification"} for n, ps in sorted(engines.items())],
    "checks": checks,
    "notes": "Machine-checked proof in Lean 4 (lean/GitSizer/Props/Cxx.lean) tied to /repo by regenerated modules (lean/GitSizer/Gen, tools/go2lean + tools/gofacts) and by a correspondence driver. See DESIGN.md.",
    "not_applicable": na,
}
json.dump(m, open(os.path.join(V, "MANIFEST.json"), "w"), indent=1)
print(f"{len(checks)} checks, {len(na)} not claimed")
