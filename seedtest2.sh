#!/bin/sh
# (development) run checks against a scratch worktree of /repo (a harmless refactoring or a seeded
# change applied there) WITHOUT touching /repo: usage: seedtest2.sh <worktree> <Cxx>...
# Evidence and the regenerated modules are restored afterwards.
W="$1"; shift
SAVE=$(mktemp -d /tmp/evsave.XXXXXX); cp -a /verif/evidence/. "$SAVE"/
for c in "$@"; do
  VERIF_REPO="$W" python3 /verif/check.py "$c" 2>&1 | grep -v KNOWN-FINDING | tail -2
done
cp -a "$SAVE"/. /verif/evidence/; rm -rf "$SAVE"
for t in go2lean gofacts gostr2lean; do /verif/build/bin/$t /repo /verif/lean/GitSizer/Gen >/dev/null 2>&1; done
(cd /repo && GOFLAGS=-mod=mod GOPROXY=off GOSUMDB=off GOTOOLCHAIN=local go build -tags verif -overlay /verif/build/overlay.json -o /verif/build/bin/drv ./internal/verifdrv && go build -o /verif/build/bin/git-sizer . ) >/dev/null 2>&1
