#!/usr/bin/env python3
"""Runs git-sizer's own test suite (guard off) and checks that the 53 pinned tests pass."""
import json, os, subprocess, sys
env = dict(os.environ, GOFLAGS="-mod=mod", GOPROXY="off", GOSUMDB="off", GOTOOLCHAIN="local")
repo = sys.argv[1] if len(sys.argv) > 1 else "/repo"
p = subprocess.run(["go", "test", "-json", "-vet=off", "-count=1", "./..."], cwd=repo, env=env, stdout=subprocess.PIPE, stderr=subprocess.PIPE, text=True)
res = {}
for line in p.stdout.splitlines():
    try:
        e = json.loads(line)
    except Exception:
        continue
    if e.get("Test") and e.get("Action") in ("pass", "fail", "skip"):
        res[e["Package"] + "::" + e["Test"]] = e["Action"]
base = json.load(open("/root/.vp/BASELINE.json"))["stable_pass"]
bad = [t for t in base if res.get(t) != "pass"]
print(f"{len(base) - len(bad)}/{len(base)} pinned tests pass")
for t in bad:
    print("NOT PASSING:", t, res.get(t))
sys.exit(1 if bad else 0)
