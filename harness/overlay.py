#!/usr/bin/env python3
"""Write build/overlay.json: maps harness sources into /repo's module (nothing is written to /repo)."""
import json, os, sys, glob
V = os.path.dirname(os.path.abspath(__file__))
REPO = os.environ.get("VERIF_REPO", "/repo")
out = sys.argv[1]
repl = {}
for f in sorted(glob.glob(os.path.join(V, "drv", "*.go"))):
    repl[os.path.join(REPO, "internal", "verifdrv", os.path.basename(f))] = f
# export files added to existing packages: harness/export/<pkgpath with __ for />/*.go
for d in sorted(glob.glob(os.path.join(V, "export", "*"))):
    pkg = os.path.basename(d).replace("__", "/")
    pkgdir = REPO if pkg == "ROOT" else os.path.join(REPO, pkg)
    for f in sorted(glob.glob(os.path.join(d, "*.go"))):
        repl[os.path.join(pkgdir, "zz_verif_" + os.path.basename(f))] = f
json.dump({"Replace": repl}, open(out, "w"), indent=1)
