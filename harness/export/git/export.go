//go:build verif

package git

// Hooks for the /verif correspondence driver (compiled only with -tags verif, injected with
// -overlay; never part of a normal build).

// VerifNewRepository builds a Repository that runs `gitBin` instead of the real git.
func VerifNewRepository(gitDir, gitBin string) *Repository {
	return &Repository{gitDir: gitDir, gitBin: gitBin}
}

// VerifConfigKeyMatchesPrefix exposes configKeyMatchesPrefix.
func VerifConfigKeyMatchesPrefix(key, prefix string) (bool, string) {
	return configKeyMatchesPrefix(key, prefix)
}

// VerifSmartJoin exposes smartJoin.
func VerifSmartJoin(path, relPath string) string { return smartJoin(path, relPath) }

// VerifGitBin returns the git binary the package would use.
func VerifGitBin() (string, error) { return findGitBin() }
