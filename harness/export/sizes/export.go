//go:build verif

package sizes

import "github.com/github/git-sizer/git"

// Hooks for the /verif correspondence driver (compiled only with -tags verif).

func (g *Graph) VerifTreeSize(oid git.OID) (TreeSize, bool) {
	g.treeLock.Lock()
	defer g.treeLock.Unlock()
	s, ok := g.treeSizes[oid]
	return s, ok
}

func (g *Graph) VerifCommitSize(oid git.OID) (CommitSize, bool) {
	g.commitLock.Lock()
	defer g.commitLock.Unlock()
	s, ok := g.commitSizes[oid]
	return s, ok
}

func (g *Graph) VerifTagSize(oid git.OID) (TagSize, bool) {
	g.tagLock.Lock()
	defer g.tagLock.Unlock()
	s, ok := g.tagSizes[oid]
	return s, ok
}

func (g *Graph) VerifPathResolver() PathResolver { return g.pathResolver }

// VerifPathOID returns the OID a *Path stands for (nil-safe).
func VerifPathOID(p *Path) (git.OID, bool) {
	if p == nil {
		return git.NullOID, false
	}
	return p.OID, true
}

// VerifNewPath builds a *Path with the given (unexported) fields.
func VerifNewPath(oid git.OID, objectType string, relativePath string, parent *Path) *Path {
	return &Path{OID: oid, objectType: objectType, seekerCount: 1, parent: parent, relativePath: relativePath}
}
