//go:build verif

package main

import (
	"encoding/json"
	"fmt"
	"math"
	"math/big"
	"sort"
	"strconv"
	"strings"

	"github.com/github/git-sizer/counts"
	"github.com/github/git-sizer/git"
	"github.com/github/git-sizer/sizes"
)

// widths of the 22 numeric fields in histNumbers order
var numWidths = []int{32, 64, 32, 32, 32, 32, 64, 64, 32, 32, 64, 32, 32, 32, 32, 32, 32, 32, 32, 64, 32, 32}

// reference values of the metric table (only used to aim the generator at k*reference)
var numScales = []float64{500e3, 250e6, 50e3, 500e3, 10, 1.5e6, 2e9, 50e6, 1000, 1.5e6, 10e9, 10e6, 25e3, 1.001, 25e3, 10, 100, 2000, 50e3, 1e9, 25e3, 100}

func genMetricValue(r *rng, i int) uint64 {
	capv := uint64(1)<<uint(numWidths[i]) - 1
	if numWidths[i] == 64 {
		capv = ^uint64(0)
	}
	var v uint64
	switch r.n(10) {
	case 0:
		v = 0
	case 1:
		v = capv
	case 2:
		v = capv - uint64(r.n(3))
	case 3, 4, 5, 6:
		k := r.n(33)
		f := float64(k) * numScales[i]
		v = uint64(f)
		switch r.n(4) {
		case 0:
			v++
		case 1:
			if v > 0 {
				v--
			}
		}
	case 7:
		v = uint64(r.n(2000))
	default:
		v = genU64(r)
	}
	if v > capv {
		v = capv
	}
	return v
}

func genThreshold(r *rng) float64 {
	switch r.n(14) {
	case 0:
		return 0
	case 1:
		return 1
	case 2:
		return 30
	case 3:
		return 0.5
	case 4:
		return 29.999
	case 5:
		return 30.0001
	case 6:
		return -1
	case 7:
		return 1e9
	case 8:
		return math.NaN()
	case 9:
		return math.Inf(1)
	case 10:
		return math.Inf(-1)
	case 11:
		return float64(r.n(32))
	case 12:
		return math.Nextafter(float64(r.n(32)), 100)
	default:
		return float64(r.n(3200)) / 100
	}
}

// the reference values of sizes/output.go in the order of the measurement vector (used only to AIM thresholds
// at interesting points; the judge takes the reference values from the regenerated table)
var outputRefValues = []float64{500e3, 250e6, 50e3, 500e3, 10, 1.5e6, 2e9, 50e6, 1000, 1.5e6, 10e9, 10e6, 25e3, 1.001, 25e3, 10, 100, 2000, 50e3, 1e9, 25e3, 100}

var nastyNames = []string{"My Group", "x|y [9]", "a\nb", "tab\there", "quote\"s", "back\\slash", "ünïcödé", "\xff\xfe", "[1]", "", "very long display name that exceeds the column width of the table"}

func numsToHist(v []uint64) sizes.HistorySize {
	return sizes.HistorySize{
		UniqueCommitCount: counts.Count32(v[0]), UniqueCommitSize: counts.Count64(v[1]), MaxCommitSize: counts.Count32(v[2]),
		MaxHistoryDepth: counts.Count32(v[3]), MaxParentCount: counts.Count32(v[4]),
		UniqueTreeCount: counts.Count32(v[5]), UniqueTreeSize: counts.Count64(v[6]), UniqueTreeEntries: counts.Count64(v[7]), MaxTreeEntries: counts.Count32(v[8]),
		UniqueBlobCount: counts.Count32(v[9]), UniqueBlobSize: counts.Count64(v[10]), MaxBlobSize: counts.Count32(v[11]),
		UniqueTagCount: counts.Count32(v[12]), MaxTagDepth: counts.Count32(v[13]), ReferenceCount: counts.Count32(v[14]),
		MaxPathDepth: counts.Count32(v[15]), MaxPathLength: counts.Count32(v[16]), MaxExpandedTreeCount: counts.Count32(v[17]),
		MaxExpandedBlobCount: counts.Count32(v[18]), MaxExpandedBlobSize: counts.Count64(v[19]), MaxExpandedLinkCount: counts.Count32(v[20]),
		MaxExpandedSubmoduleCount: counts.Count32(v[21]),
		ReferenceGroups: map[sizes.RefGroupSymbol]*counts.Count32{},
	}
}

func setWitnesses(h *sizes.HistorySize, ps []*sizes.Path) {
	h.MaxCommitSizeCommit, h.MaxParentCountCommit, h.MaxTreeEntriesTree, h.MaxBlobSizeBlob, h.MaxTagDepthTag = ps[0], ps[1], ps[2], ps[3], ps[4]
	h.MaxPathDepthTree, h.MaxPathLengthTree, h.MaxExpandedTreeCountTree, h.MaxExpandedBlobCountTree = ps[5], ps[6], ps[7], ps[8]
	h.MaxExpandedBlobSizeTree, h.MaxExpandedLinkCountTree, h.MaxExpandedSubmoduleCountTree = ps[9], ps[10], ps[11]
}

var witnessTypes = []string{"commit", "commit", "tree", "blob", "tag", "tree", "tree", "tree", "tree", "tree", "tree", "tree"}

func ratOfFloat(f float64) string {
	r := new(big.Rat)
	if r.SetFloat64(f) == nil {
		return "x/1"
	}
	return r.Num().String() + "/" + r.Denom().String()
}

func init() {
	register(&engine{
		name: "output",
		gen: func(r *rng, i int, tier string) []string {
			var nums []string
			for k := 0; k < 22; k++ {
				nums = append(nums, u(genMetricValue(r, k)))
			}
			// witnesses: '-' nil, 'N' null oid, or oid:relpath
			var wits []string
			shared := hex40(r)
			nastyW := r.coin(1, 8)
			for k := 0; k < 12; k++ {
				switch r.n(6) {
				case 0:
					wits = append(wits, "-")
				case 1:
					wits = append(wits, "N")
				case 2:
					wits = append(wits, shared+":"+hxs("refs/heads/main:dir/file"))
				default:
					rels := []string{"", "refs/heads/master", "HEAD^{tree}", "refs/tags/v1:a b/c\"d", "refs/heads/ü", "HEAD:caf\xe9.txt", "HEAD:a\x01b", "HEAD:del\x7f\vq", "HEAD:\xf0\x9f\x98\x80\xed\xa0\x80", "x\ny", "[7]", "a|b"}
					if !nastyW {
						rels = rels[:9]
					}
					rel := rels[r.n(len(rels))]
					wits = append(wits, hex40(r)+":"+hxs(rel))
				}
			}
			// reference groups
			var gs []string
			ng := r.n(6)
			nasty := r.coin(1, 8)
			for k := 0; k < ng; k++ {
				sym := symPool[r.n(len(symPool))]
				if r.coin(1, 8) {
					sym = ""
				}
				name := []string{"Branches", "Tags", "Other", "Mine", "A group"}[r.n(5)]
				if nasty {
					name = nastyNames[r.n(len(nastyNames))]
				}
				tally := "-"
				if r.coin(4, 5) {
					tally = u(uint64(r.n(100000)))
					if r.coin(1, 10) {
						tally = u(1<<32 - 1)
					}
				}
				gs = append(gs, hxs(sym)+":"+hxs(name)+":"+tally)
			}
			t1, t2 := genThreshold(r), genThreshold(r)
			if r.coin(1, 4) {
				// a threshold EXACTLY equal to the level of concern that JSON v2 reports for one of the metrics
				// (float64(value)/reference): the row must be shown — value/reference >= threshold holds with
				// equality — however the comparison is spelt (seeded C11y compared value with threshold*reference)
				k := r.n(len(outputRefValues))
				t1 = float64(atou(nums[k])) / outputRefValues[k]
				if r.coin(1, 2) {
					t2 = math.Nextafter(t1, math.Inf(1))
				}
			}
			return []string{strings.Join(nums, ","), strings.Join(wits, ","), joinOrDash(gs, ","),
				u(math.Float64bits(t1)), u(math.Float64bits(t2)), strconv.Itoa(r.n(3))}
		},
		exec: func(in []string) []string {
			var v []uint64
			for _, s := range strings.Split(in[0], ",") {
				v = append(v, atou(s))
			}
			h := numsToHist(v)
			var ps []*sizes.Path
			for k, w := range strings.Split(in[1], ",") {
				switch {
				case w == "-":
					ps = append(ps, nil)
				case w == "N":
					ps = append(ps, sizes.VerifNewPath(git.NullOID, witnessTypes[k], "", nil))
				default:
					f := strings.SplitN(w, ":", 2)
					oid, err := git.NewOID(f[0])
					if err != nil {
						panic(err)
					}
					ps = append(ps, sizes.VerifNewPath(oid, witnessTypes[k], string(unhx(f[1])), nil))
				}
			}
			setWitnesses(&h, ps)
			var groups []sizes.RefGroup
			for _, g := range splitOrNil(in[2], ",") {
				f := strings.Split(g, ":")
				sym := sizes.RefGroupSymbol(unhx(f[0]))
				groups = append(groups, sizes.RefGroup{Symbol: sym, Name: string(unhx(f[1]))})
				if f[2] != "-" {
					c := counts.Count32(atou(f[2]))
					h.ReferenceGroups[sym] = &c
				}
			}
			t1 := sizes.Threshold(math.Float64frombits(atou(in[3])))
			t2 := sizes.Threshold(math.Float64frombits(atou(in[4])))
			styleN, _ := strconv.Atoi(in[5])
			style := sizes.NameStyle(styleN)
			table := func(t sizes.Threshold) (res string) {
				defer func() {
					if p := recover(); p != nil {
						res = "panic"
					}
				}()
				return hxs(h.TableString(groups, t, style))
			}
			tab1, tab2 := table(t1), table(t2)
			// JSON v1
			j1, err := json.MarshalIndent(h, "", "    ")
			v1 := "err"
			if err == nil && json.Valid(j1) {
				var m map[string]interface{}
				dec := json.NewDecoder(strings.NewReader(string(j1)))
				dec.UseNumber()
				if dec.Decode(&m) == nil {
					var parts []string
					for k, x := range m {
						switch y := x.(type) {
						case json.Number:
							parts = append(parts, k+"="+y.String())
						case string:
							parts = append(parts, k+"=s"+hxs(y))
						case map[string]interface{}:
							var sub []string
							for gk, gv := range y {
								sub = append(sub, hxs(gk)+"~"+fmt.Sprint(gv))
							}
							sort.Strings(sub)
							parts = append(parts, k+"=m"+strings.Join(sub, ";"))
						default:
							parts = append(parts, k+"=?")
						}
					}
					sort.Strings(parts)
					v1 = strings.Join(parts, ",")
				}
			}
			// JSON v2
			v2 := "err"
			j2, err := h.JSON(groups, t1, style)
			if err == nil && json.Valid(j2) {
				var m map[string]struct {
					Description       string      `json:"description"`
					Value             json.Number `json:"value"`
					Unit              string      `json:"unit"`
					Prefixes          string      `json:"prefixes"`
					ReferenceValue    float64     `json:"referenceValue"`
					LevelOfConcern    float64     `json:"levelOfConcern"`
					ObjectName        string      `json:"objectName"`
					ObjectDescription string      `json:"objectDescription"`
				}
				dec := json.NewDecoder(strings.NewReader(string(j2)))
				dec.UseNumber()
				if err := dec.Decode(&m); err == nil {
					var parts []string
					for sym, it := range m {
						val, _ := strconv.ParseUint(it.Value.String(), 10, 64)
						locOK := it.LevelOfConcern == float64(val)/it.ReferenceValue
						parts = append(parts, strings.Join([]string{hxs(sym), it.Value.String(), hxs(it.Unit), hxs(it.Prefixes),
							ratOfFloat(it.ReferenceValue), boolStr(locOK), hxs(it.ObjectName), hxs(it.ObjectDescription), hxs(it.Description)}, ":"))
					}
					sort.Strings(parts)
					v2 = strings.Join(parts, ",")
				}
			}
			return []string{tab1, tab2, v1, v2}
		},
		class: func(in, res []string) string {
			c := "table"
			if res[0] == "panic" {
				c = "panic"
			} else if strings.HasPrefix(res[0], hxs("No problems")) {
				c = "no-problems"
			}
			return c + "/style=" + in[5]
		},
	})
}

func hex40(r *rng) string {
	b := randOID(r)
	b[0] |= 1
	return fmt.Sprintf("%x", b)
}
