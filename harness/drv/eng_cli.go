//go:build verif

package main

import (
	"bytes"
	"crypto/sha1"
	"encoding/hex"
	"fmt"
	"io"
	"os"
	"os/exec"
	"path/filepath"
	"regexp"
	"sort"
	"strconv"
	"strings"
	"syscall"
	"time"
)

// ---------------------------------------------------------------- the fault-injecting git shim
//
// When the driver binary is invoked under the name `git` with VERIF_SHIM set, it impersonates
// git: invocations whose arguments match the target signature get a fault, all others are
// exec'ed straight through to the real git (VERIF_REAL_GIT).
//
// VERIF_SHIM = "<signature>|<permille>|<align>|<exit>|<kill>"
//   signature: substring of the space-joined argument list
//   permille : deliver only this fraction of the real stdout (1000 = all)
//   align    : bit 0: cut at the previous line boundary; bit 1: break only the first matching invocation
//   exit     : exit status to report (-1 = the real one)
//   kill     : 1 = die from SIGKILL after delivering the prefix
func init() {
	spec := os.Getenv("VERIF_SHIM")
	if spec == "" || filepath.Base(os.Args[0]) != "git" {
		return
	}
	real := os.Getenv("VERIF_REAL_GIT")
	args := os.Args[1:]
	f := strings.Split(spec, "|")
	joined := strings.Join(args, " ") + " "
	if len(f) != 5 || !strings.Contains(joined, f[0]) {
		syscall.Exec(real, append([]string{"git"}, args...), os.Environ())
		os.Exit(127)
	}
	permille, _ := strconv.Atoi(f[1])
	exitCode, _ := strconv.Atoi(f[3])
	if al, _ := strconv.Atoi(f[2]); al&2 != 0 {
		// only the FIRST matching invocation of the run is broken: a program that quietly tries again
		// (seeded change C10g retried `rev-parse --verify` in another spelling) then gets a healthy git
		if b, err := os.ReadFile(os.Getenv("VERIF_SHIM_LOG")); err == nil && len(b) > 0 {
			syscall.Exec(real, append([]string{"git"}, args...), os.Environ())
			os.Exit(127)
		}
		f[2] = strconv.Itoa(al & 1)
	}
	if lg := os.Getenv("VERIF_SHIM_LOG"); lg != "" {
		if fh, err := os.OpenFile(lg, os.O_APPEND|os.O_CREATE|os.O_WRONLY, 0o644); err == nil {
			fh.WriteString("hit\n")
			fh.Close()
		}
	}
	if permille < 0 {
		// die at once, before a single byte of stdin was read (whoever feeds this process is left
		// with a pipe that nobody drains)
		if f[4] == "1" {
			syscall.Kill(os.Getpid(), syscall.SIGKILL)
			select {}
		}
		if exitCode < 1 {
			exitCode = 1
		}
		os.Exit(exitCode)
	}
	cmd := exec.Command(real, args...)
	cmd.Stdin = os.Stdin
	cmd.Stderr = os.Stderr
	var out bytes.Buffer
	cmd.Stdout = &out
	err := cmd.Run()
	realCode := 0
	if err != nil {
		if ee, ok := err.(*exec.ExitError); ok {
			realCode = ee.ExitCode()
		} else {
			realCode = 126
		}
	}
	b := out.Bytes()
	cut := len(b) * permille / 1000
	if f[2] == "1" {
		for cut > 0 && cut < len(b) && b[cut-1] != '\n' {
			cut--
		}
	}
	os.Stdout.Write(b[:cut])
	if f[4] == "1" {
		syscall.Kill(os.Getpid(), syscall.SIGKILL)
		select {}
	}
	if exitCode >= 0 {
		os.Exit(exitCode)
	}
	os.Exit(realCode)
}

func realGitPath() string {
	p, err := exec.LookPath("git")
	if err != nil {
		return "/usr/bin/git"
	}
	// do not pick up our own shim
	if rp, err := filepath.EvalSymlinks(p); err == nil {
		if self, _ := os.Executable(); rp == self {
			return "/usr/bin/git"
		}
	}
	return p
}

// shimDir returns a directory containing `git` -> this binary.
func shimDir(base string) string {
	d := filepath.Join(base, "shim")
	os.MkdirAll(d, 0o755)
	self, _ := os.Executable()
	os.Symlink(self, filepath.Join(d, "git"))
	return d
}

// ---------------------------------------------------------------- helpers

func snapshotDir(root string) string {
	h := sha1.New()
	var paths []string
	filepath.Walk(root, func(p string, info os.FileInfo, err error) error {
		if err != nil {
			return nil
		}
		paths = append(paths, p)
		return nil
	})
	sort.Strings(paths)
	for _, p := range paths {
		info, err := os.Lstat(p)
		if err != nil {
			continue
		}
		rel, _ := filepath.Rel(root, p)
		fmt.Fprintf(h, "%s\x00%o\x00", rel, info.Mode())
		if info.Mode().IsRegular() {
			b, _ := os.ReadFile(p)
			fmt.Fprintf(h, "%d\x00", len(b))
			h.Write(b)
		} else if info.Mode()&os.ModeSymlink != 0 {
			t, _ := os.Readlink(p)
			h.Write([]byte(t))
		}
	}
	return hex.EncodeToString(h.Sum(nil))
}

func sha(b []byte) string {
	s := sha1.Sum(b)
	return hex.EncodeToString(s[:8])
}

var progressRe = regexp.MustCompile(`(Processing blobs|Processing trees|Processing commits|Matching commits to trees|Processing annotated tags|Processing references): (\d+) [^\r\n]*\n`)

func pathWithBin(extraFirst ...string) string {
	parts := append([]string{}, extraFirst...)
	if b := os.Getenv("VERIF_BIN"); b != "" {
		parts = append(parts, b)
	}
	parts = append(parts, os.Getenv("PATH"))
	return strings.Join(parts, string(os.PathListSeparator))
}

func envWith(base []string, kv ...string) []string {
	out := []string{}
	for _, e := range base {
		skip := false
		for _, x := range kv {
			if strings.HasPrefix(e, strings.SplitN(x, "=", 2)[0]+"=") {
				skip = true
			}
		}
		if !skip {
			out = append(out, e)
		}
	}
	return append(out, kv...)
}

// a small repository whose metrics straddle the reference values, for option/threshold cases
func optsRepo() ([]gObj, []int64, []string) {
	var objs []gObj
	objs = append(objs, gObj{kind: 'b', size: 5000})                                                                       // 0
	longName := strings.Repeat("p", 130)
	objs = append(objs, gObj{kind: 't', entries: []gEntry{{0o100644, []byte(longName), 0}, {0o100644, []byte("f"), 0}}}) // 1
	objs = append(objs, gObj{kind: 't', entries: []gEntry{{0o40000, []byte("d"), 1}}})                                   // 2
	var parents []int
	for i := 0; i < 12; i++ {
		objs = append(objs, gObj{kind: 'c', tree: 1, pad: 10})
		parents = append(parents, len(objs)-1)
	}
	objs = append(objs, gObj{kind: 'c', tree: 2, parents: parents, pad: 20}) // 15: octopus with 12 parents
	objs = append(objs, gObj{kind: 'g', ref: 15, refKind: 'c'})              // 16
	objs = append(objs, gObj{kind: 'g', ref: 16, refKind: 'g'})              // 17
	objs = append(objs, gObj{kind: 'g', ref: 17, refKind: 'g'})              // 18
	// a chain of 36 nested tags on the side branch: "Maximum tag depth" lies between 30 and 40 times its
	// reference, so thresholds above 30 are distinguishable (seeded change C14g clamped --threshold to 30)
	objs = append(objs, gObj{kind: 'g', ref: 3, refKind: 'c'}) // 19
	for k := 0; k < 35; k++ {
		objs = append(objs, gObj{kind: 'g', ref: len(objs) - 1, refKind: 'g', pad: k})
	}
	times := make([]int64, len(objs))
	for i := range times {
		times[i] = 1500000000 + int64(i)
	}
	refs := []string{"refs/heads/main=15", "refs/heads/side=3", "refs/tags/deep=18", fmt.Sprintf("refs/tags/deeper=%d", len(objs)-1), "refs/tags/v1=16", "refs/remotes/origin/main=15", "refs/notes/commits=4"}
	return realSizes(objs, times), times, refs
}

type optCase struct {
	cfgA, cfgB   []string // key=value (command scope, via GIT_CONFIG_COUNT)
	argsA, argsB []string
	expect       string // "equal" | "failA" (A must fail with empty stdout)
}

// k structurally identical orphan branches (same date, same sizes), each with an annotated tag
func tieRepo(r *rng) ([]gObj, []int64, []string) {
	k := 2 + r.n(3)
	var objs []gObj
	var refs []string
	sz := uint64(100 + r.n(2000))
	pad, tagpad := r.n(100), r.n(50)
	for b := 0; b < k; b++ {
		base := len(objs)
		objs = append(objs, gObj{kind: 'b', size: sz})
		objs = append(objs, gObj{kind: 't', entries: []gEntry{{0o100644, []byte(fmt.Sprintf("f%d.txt", b)), base}}})
		objs = append(objs, gObj{kind: 'c', tree: base + 1, pad: pad})
		objs = append(objs, gObj{kind: 'g', ref: base + 2, refKind: 'c', pad: tagpad})
		refs = append(refs, fmt.Sprintf("refs/heads/b%d=%d", b, base+2), fmt.Sprintf("refs/tags/v%d=%d", b, base+3))
	}
	times := make([]int64, len(objs))
	for i := range times {
		times[i] = 1600000000
	}
	return objs, times, refs
}

// a chain of commits whose root trees are successive versions of one directory with more than a thousand
// entries: tree objects larger than 32 KiB that follow one another in the `cat-file --batch` stream (a reader
// that reuses a buffer for large objects races with the parser of the previous one: seeded change C17u)
func bigTreeRepo(r *rng) ([]gObj, []int64, []string) {
	n := 1000 + r.n(300)
	versions := 3 + r.n(4)
	var objs []gObj
	objs = append(objs, gObj{kind: 'b', size: uint64(10 + r.n(90))})
	parent := -1
	for v := 0; v < versions; v++ {
		var es []gEntry
		for i := 0; i < n; i++ {
			name := fmt.Sprintf("f%04d", i)
			if i == v*7%n {
				name = fmt.Sprintf("f%04d.v%d", i, v)
			}
			es = append(es, gEntry{0o100644, []byte(name), 0})
		}
		objs = append(objs, gObj{kind: 't', entries: es})
		c := gObj{kind: 'c', tree: len(objs) - 1, pad: r.n(40)}
		if parent >= 0 {
			c.parents = []int{parent}
		}
		objs = append(objs, c)
		parent = len(objs) - 1
	}
	times := make([]int64, len(objs))
	for i := range times {
		times[i] = 1600000000 + int64(i)
	}
	return objs, times, []string{fmt.Sprintf("refs/heads/main=%d", parent)}
}

func cfgEnv(cfg []string) []string {
	var kvs [][]string
	for _, kv := range cfg {
		p := strings.SplitN(kv, "=", 2)
		if p[0] == "@file" { // handled by the caller: text appended to the repository's own config file
			continue
		}
		if p[0] == "@pad" { // an unrelated entry with a value of that many bytes
			n, _ := strconv.Atoi(p[1])
			p = []string{"verif.pad", strings.Repeat("x", n)}
		}
		kvs = append(kvs, p)
	}
	env := []string{"GIT_CONFIG_COUNT=" + strconv.Itoa(len(kvs))}
	for i, p := range kvs {
		env = append(env, fmt.Sprintf("GIT_CONFIG_KEY_%d=%s", i, p[0]), fmt.Sprintf("GIT_CONFIG_VALUE_%d=%s", i, p[1]))
	}
	return env
}

// the "@file=<text>" entries of a configuration: text for the repository's own config file (the only way
// to write a key WITHOUT a value, which git reads as boolean true)
func cfgFileText(cfg []string) string {
	var b strings.Builder
	for _, kv := range cfg {
		if strings.HasPrefix(kv, "@file=") {
			b.WriteString(strings.TrimPrefix(kv, "@file="))
		}
	}
	return b.String()
}

// an unrelated configuration entry longer than 64 KiB ahead of the sizer.* entries (a record reader with a
// fixed line limit stops there: seeded change C14q)
func genOptCase(r *rng) optCase {
	c := genOptCase0(r)
	if len(c.cfgA) > 0 && r.coin(1, 6) {
		c.cfgA = append([]string{fmt.Sprintf("@pad=%d", 66000+r.n(30000))}, c.cfgA...)
	}
	return c
}

func genOptCase0(r *rng) optCase {
	thr := []string{"--verbose", "-v", "--no-verbose", "--critical", "--threshold=0", "--threshold=1", "--threshold=30", "--threshold=2.5", "--threshold=12", "--verbose=false", "--critical=false", "--threshold=-3"}
	canon := map[string]string{"--verbose": "--threshold=0", "-v": "--threshold=0", "--no-verbose": "--threshold=1", "--critical": "--threshold=30",
		"--verbose=false": "--threshold=1", "--critical=false": "--threshold=1"}
	c := func(s string) string {
		if x, ok := canon[s]; ok {
			return x
		}
		return s
	}
	out := [][]string{{}, {"--json"}, {"-j"}, {"--json", "--json-version=2"}, {"--json", "--json-version=1"}}[r.n(5)]
	which := r.n(19)
	if which == 18 {
		// a ROOT must name exactly ONE object: revision-range and multi-revision syntax is rejected even when it
		// happens to expand to a single line (`X^!` of a root commit, `X^@` of a one-parent commit: seeded C10m)
		bad := [][]string{{"refs/heads/side^!"}, {"refs/heads/main^@"}, {"refs/heads/side..refs/heads/main"}, {"^refs/heads/main"},
			{"refs/heads/side^!", "refs/heads/main"}, {"refs/heads/main^-"}, {"refs/heads/side^@"}, {"refs/tags/v1^!"}}[r.n(8)]
		return optCase{argsA: append(bad, out...), argsB: out, expect: "failA"}
	}
	if which >= 16 { // the progress family: its effect shows on stderr only
		truthy := map[string]bool{"true": true, "yes": true, "on": true, "1": true}
		if r.coin(1, 5) {
			// `progress` without a value in the repository's config file: git reads it as true (seeded C14m read "")
			return optCase{cfgA: []string{"@file=[sizer]\n\tprogress\n"}, argsA: []string{"@noforce"}, argsB: []string{"@noforce", "--progress"}, expect: "equal"}
		}
		if r.coin(1, 2) {
			v := []string{"true", "false", "yes", "no", "on", "off", "1", "0"}[r.n(8)]
			opt := "--no-progress"
			if truthy[v] {
				opt = "--progress"
			}
			return optCase{cfgA: []string{"sizer.progress=" + v}, argsA: []string{"@noforce"}, argsB: []string{"@noforce", opt}, expect: "equal"}
		}
		cv := []string{"true", "false", "maybe", ""}[r.n(4)]
		o := [][]string{{"--progress"}, {"--no-progress"}, {"--progress=false"}, {"--no-progress=false"}, {"--progress", "--no-progress"}, {"--no-progress", "--progress"}}[r.n(6)]
		args := append([]string{"@noforce"}, o...)
		return optCase{cfgA: []string{"sizer.progress=" + cv}, argsA: args, argsB: args, expect: "equal"}
	}
	if which >= 12 { // the threshold family gets a good share of the cases
		which = 1
	}
	if (which == 0 || which == 1 || which == 5 || which == 8) && r.n(4) != 0 {
		out = []string{} // the threshold only shows in the table
	}
	switch which {
	case 0: // equivalent spellings of one threshold option
		t := thr[r.n(len(thr))]
		return optCase{argsA: append([]string{t}, out...), argsB: append([]string{c(t)}, out...), expect: "equal"}
	case 1: // the last of the threshold family wins
		n := 2 + r.n(3)
		var seq []string
		if r.n(2) == 0 {
			for i := 0; i < n; i++ {
				seq = append(seq, thr[r.n(len(thr))])
			}
		} else { // the same option again after others of the family: A X.. A
			a := thr[r.n(len(thr))]
			seq = append(seq, a)
			for i := 0; i < 1+r.n(3); i++ {
				seq = append(seq, thr[r.n(len(thr))])
			}
			seq = append(seq, a)
			n = len(seq)
		}
		return optCase{argsA: append(seq, out...), argsB: append([]string{c(seq[n-1])}, out...), expect: "equal"}
	case 2: // -j == --json
		return optCase{argsA: []string{"-j"}, argsB: []string{"--json"}, expect: "equal"}
	case 3: // --include-regexp R == --include /R/ (likewise exclude)
		re := []string{"refs/heads/.*", "refs/tags/v1|refs/heads/side", ".*/main", "refs/(heads|tags)/.*"}[r.n(4)]
		k := []string{"include", "exclude"}[r.n(2)]
		return optCase{argsA: append([]string{"--" + k + "-regexp", re, "--show-refs"}, out...), argsB: append([]string{"--" + k, "/" + re + "/", "--show-refs"}, out...), expect: "equal"}
	case 4: // --refgroup G == --include @G
		if r.coin(1, 2) {
			// a group nested three or more levels deep whose middle levels exist only implicitly, below an
			// ancestor with a filter of its own, and whose own pattern reaches outside that ancestor
			// (seeded changes C06n / C14n stopped the upward walk at the first filterless group)
			outer := []string{"refs/heads", "refs/tags", "refs/remotes"}[r.n(3)]
			deep := []string{"mine.topic.wip", "mine.a.b.c", "mine.x.y"}[r.n(3)]
			re := []string{".*main.*", "refs/.*/v1", ".*/(main|v1|deep)", "refs/.*"}[r.n(4)]
			cfg := []string{"refgroup.mine.include=" + outer, "refgroup." + deep + ".includeRegexp=" + re}
			return optCase{cfgA: cfg, cfgB: cfg, argsA: append([]string{"--refgroup", deep}, out...), argsB: append([]string{"--include", "@" + deep}, out...), expect: "equal"}
		}
		g := []string{"branches", "tags", "remotes", "notes"}[r.n(4)]
		return optCase{argsA: append([]string{"--refgroup", g}, out...), argsB: append([]string{"--include", "@" + g}, out...), expect: "equal"}
	case 5: // gitconfig has the effect of the option when no option of the family is given
		v := []string{"0", "1", "30", "2.5", "12", "-1", "1e9", "40", "33.5"}[r.n(9)]
		if r.coin(1, 3) {
			// the key defined twice (two scopes): git's answer — `git config --get` — is the LAST one
			// (seeded C14y looked the key up in the listing and took the first)
			w := []string{"30", "0", "7", "abc"}[r.n(4)]
			return optCase{cfgA: []string{"sizer.threshold=" + w, "sizer.threshold=" + v}, argsA: out, argsB: append([]string{"--threshold=" + v}, out...), expect: "equal"}
		}
		return optCase{cfgA: []string{"sizer.threshold=" + v}, argsA: out, argsB: append([]string{"--threshold=" + v}, out...), expect: "equal"}
	case 6:
		v := []string{"none", "hash", "full", "sha1", "sha-1"}[r.n(5)]
		if r.coin(1, 3) {
			w := []string{"none", "full", "hash", "bogus"}[r.n(4)]
			return optCase{cfgA: []string{"sizer.names=" + w, "sizer.names=" + v}, argsA: out, argsB: append([]string{"--names=" + v}, out...), expect: "equal"}
		}
		return optCase{cfgA: []string{"sizer.names=" + v}, argsA: out, argsB: append([]string{"--names=" + v}, out...), expect: "equal"}
	case 7:
		v := []string{"1", "2"}[r.n(2)]
		if r.coin(1, 2) {
			// without --json the JSON version is not used at all, in either spelling, whatever its value
			// (seeded change C14z validated the option's value even then, but not the gitconfig's)
			v = []string{"1", "2", "3", "0", "7", "-1"}[r.n(6)]
			tbl := [][]string{{}, {"--verbose"}, {"--names=hash"}}[r.n(3)]
			return optCase{cfgA: []string{"sizer.jsonVersion=" + v}, argsA: tbl, argsB: append([]string{"--json-version=" + v}, tbl...), expect: "equal"}
		}
		return optCase{cfgA: []string{"sizer.jsonVersion=" + v}, argsA: []string{"--json"}, argsB: []string{"--json", "--json-version=" + v}, expect: "equal"}
	case 8: // the command line overrides gitconfig, valid or invalid
		cv := []string{"0", "30", "abc", "", "NaN"}[r.n(5)]
		t := thr[r.n(len(thr))]
		return optCase{cfgA: []string{"sizer.threshold=" + cv}, argsA: append([]string{t}, out...), argsB: append([]string{t}, out...), expect: "equal"}
	case 9:
		cv := []string{"none", "bogus", ""}[r.n(3)]
		v := []string{"none", "hash", "full"}[r.n(3)]
		return optCase{cfgA: []string{"sizer.names=" + cv}, argsA: append([]string{"--names=" + v}, out...), argsB: append([]string{"--names=" + v}, out...), expect: "equal"}
	case 10:
		cv := []string{"2", "7", "x"}[r.n(3)]
		v := []string{"1", "2"}[r.n(2)]
		return optCase{cfgA: []string{"sizer.jsonVersion=" + cv}, argsA: []string{"--json", "--json-version=" + v}, argsB: []string{"--json", "--json-version=" + v}, expect: "equal"}
	default: // an invalid setting that is in effect is an error: no report
		switch r.n(5) {
		case 0:
			return optCase{cfgA: []string{"sizer.threshold=abc"}, argsA: out, argsB: out, expect: "failA"}
		case 1:
			return optCase{cfgA: []string{"sizer.names=bogus"}, argsA: out, argsB: out, expect: "failA"}
		case 2:
			return optCase{cfgA: []string{"sizer.jsonVersion=7"}, argsA: []string{"--json"}, argsB: []string{"--json"}, expect: "failA"}
		case 3:
			return optCase{argsA: []string{"--json", "--json-version=3"}, argsB: []string{"--json"}, expect: "failA"}
		default:
			bad := [][]string{{"--threshold=abc"}, {"--names=bogus"}, {"--include", "/(/"}, {"--include", "@nosuchgroup"}, {"--no-such-option"}, {"--branches=maybe"}, {"nosuchroot"}}[r.n(7)]
			return optCase{argsA: bad, argsB: out, expect: "failA"}
		}
	}
}

func encStrs(xs []string) string {
	var hs []string
	for _, x := range xs {
		hs = append(hs, hxs(x))
	}
	return joinOrDash(hs, ",")
}

func decStrs(s string) []string {
	var out []string
	for _, h := range splitOrNil(s, ",") {
		out = append(out, string(unhx(h)))
	}
	return out
}

func init() {
	// ------------------------------------------------------------ opts (C14)
	register(&engine{
		name: "opts",
		gen: func(r *rng, i int, tier string) []string {
			c := genOptCase(r)
			return []string{encStrs(c.cfgA), encStrs(c.argsA), encStrs(c.cfgB), encStrs(c.argsB), c.expect}
		},
		exec: func(in []string) []string {
			objs, times, refs := optsRepo()
			rr, err := buildRepo(objs, times, refs)
			if err != nil {
				return []string{"setup-failed"}
			}
			defer rr.cleanup()
			run := func(cfg, args []string) (int, []byte, []byte) {
				env := append(gitEnv(), cfgEnv(cfg)...)
				if txt := cfgFileText(cfg); txt != "" {
					cf := filepath.Join(rr.dir, "config")
					if orig, err := os.ReadFile(cf); err == nil {
						os.WriteFile(cf, append(append([]byte{}, orig...), []byte(txt)...), 0o644)
						defer os.WriteFile(cf, orig, 0o644)
					}
				}
				if len(args) > 0 && args[0] == "@noforce" { // progress-family cases choose the progress options themselves
					args = args[1:]
				} else {
					args = append([]string{"--no-progress"}, args...)
				}
				o, e, code := runCmd(rr.dir, env, nil, sizerBin(), args...)
				return code, o, e
			}
			ca, oa, ea := run(decStrs(in[0]), decStrs(in[1]))
			cb, ob, eb := run(decStrs(in[2]), decStrs(in[3]))
			// the deprecation notice of --include-regexp/--refgroup goes to stderr and is not compared;
			// whether progress lines were written is
			pa, pb := bytes.Contains(ea, []byte("Processing references")), bytes.Contains(eb, []byte("Processing references"))
			return []string{strconv.Itoa(ca), sha(oa), strconv.Itoa(len(oa)), boolStr(len(ea) > 0), strconv.Itoa(cb), sha(ob), strconv.Itoa(len(ob)), boolStr(len(eb) > 0), boolStr(pa), boolStr(pb)}
		},
		class: func(in, res []string) string { return in[4] + "/exit=" + res[0] },
	})

	// ------------------------------------------------------------ addr (C13)
	register(&engine{
		name: "addr",
		gen: func(r *rng, i int, tier string) []string {
			var objs []gObj
			var times []int64
			for try := 0; try < 5; try++ {
				objs, times = genE2ERepo(r, tier)
				if !hasDuplicateObjects(objs, times) {
					break
				}
			}
			objs = realSizes(objs, times)
			refs := genE2ERefs(r, objs)
			commits := indicesOf(objs, 'c')
			// replace refs (same kind) and graft lines
			var grafts []string
			if r.coin(1, 2) {
				for k := 0; k < 1+r.n(2); k++ {
					a, b := r.n(len(objs)), r.n(len(objs))
					if a != b && objs[a].kind == objs[b].kind {
						refs = append(refs, fmt.Sprintf("refs/replace/#%d=%d", a, b))
					}
				}
				if len(commits) >= 2 {
					a, b := commits[r.n(len(commits))], commits[r.n(len(commits))]
					grafts = append(grafts, fmt.Sprintf("%d>%d", a, b))
				}
				if len(commits) >= 1 && r.coin(1, 2) {
					grafts = append(grafts, fmt.Sprintf("%d>", commits[r.n(len(commits))])) // graft that drops all parents
				}
			}
			sort.Strings(refs)
			// de-duplicate reference names
			var uniq []string
			seen := map[string]bool{}
			for _, rf := range refs {
				n := strings.SplitN(rf, "=", 2)[0]
				if !seen[n] {
					seen[n] = true
					uniq = append(uniq, rf)
				}
			}
			refs = uniq
			var roots []int
			for _, rf := range refs {
				idx, _ := refIdx(strings.SplitN(rf, "=", 2)[1])
				roots = append(roots, idx)
			}
			shallow := "0"
			if r.coin(1, 8) && len(commits) > 0 {
				shallow = "1"
			}
			style := []string{"full", "hash", "none"}[r.n(3)]
			return []string{encRepo(objs), timesJoin(times), joinOrDash(refs, ","), joinOrDash(grafts, ","), intsJoin(roots), style, shallow}
		},
		exec: func(in []string) []string {
			objs := decRepo(in[0])
			times := timesSplit(in[1])
			refs := splitOrNil(in[2], ",")
			if hasDuplicateObjects(objs, times) {
				return []string{"dup"}
			}
			rr, err := buildRepoKind(objs, times, refs, false)
			if err != nil {
				return []string{"setup-failed", hxs(err.Error())}
			}
			defer rr.cleanup()
			w := filepath.Dir(rr.dir)
			top := filepath.Dir(w)
			// graft file
			if g := splitOrNil(in[3], ","); len(g) > 0 {
				var b bytes.Buffer
				for _, line := range g {
					p := strings.SplitN(line, ">", 2)
					a, _ := strconv.Atoi(p[0])
					b.WriteString(rr.oids[a])
					if p[1] != "" {
						x, _ := strconv.Atoi(p[1])
						b.WriteString(" " + rr.oids[x])
					}
					b.WriteString("\n")
				}
				os.MkdirAll(filepath.Join(rr.dir, "info"), 0o755)
				os.WriteFile(filepath.Join(rr.dir, "info", "grafts"), b.Bytes(), 0o644)
			}
			if in[3] != "-" && len(objs)%2 == 1 {
				// a pack with a reachability bitmap written WHILE the graft file was in effect: the bitmap has the
				// grafted edges baked in (seeded change C13m listed objects with --use-bitmap-index under --names=none)
				runCmd(w, gitEnv(), nil, "git", "--git-dir", rr.dir, "repack", "-adbq")
			}
			os.MkdirAll(filepath.Join(w, "sub", "dir"), 0o755)
			if len(objs)%2 == 0 {
				// untracked files at the top of the work tree that look like the inside of a git directory:
				// git looks for `.git` first, so they change nothing (seeded change C13q guessed from them)
				os.WriteFile(filepath.Join(w, "HEAD"), []byte("ref: refs/heads/main\n"), 0o644)
				os.MkdirAll(filepath.Join(w, "objects"), 0o755)
				os.MkdirAll(filepath.Join(w, "refs"), 0o755)
			}
			env := envWith(gitEnv(), "PATH="+pathWithBin())
			// linked worktree, if there is a commit to check out
			wt := ""
			if cs := indicesOf(objs, 'c'); len(cs) > 0 {
				p := filepath.Join(top, "linked")
				if _, _, code := runCmd(w, env, nil, "git", "worktree", "add", "-q", "--no-checkout", "--detach", p, rr.oids[cs[0]]); code == 0 {
					wt = p
				}
			}
			// bare copy
			bare := filepath.Join(top, "bare.git")
			runCmd(top, env, nil, "cp", "-r", rr.dir, bare)
			runCmd(top, env, nil, "git", "--git-dir", bare, "config", "core.bare", "true")
			if in[6] == "1" {
				cs := indicesOf(objs, 'c')
				os.WriteFile(filepath.Join(rr.dir, "shallow"), []byte(rr.oids[cs[0]]+"\n"), 0o644)
				os.WriteFile(filepath.Join(bare, "shallow"), []byte(rr.oids[cs[0]]+"\n"), 0o644)
			}
			sargs := []string{"--json", "--json-version=1", "--no-progress", "--names=" + in[5]}
			type res struct {
				code int
				out  []byte
			}
			var results []res
			add := func(cwd string, e []string, name string, args ...string) {
				o, _, code := runCmd(cwd, e, nil, name, args...)
				results = append(results, res{code, o})
			}
			add(w, env, sizerBin(), sargs...)                                          // top of the work tree
			add(filepath.Join(w, "sub", "dir"), env, sizerBin(), sargs...)             // subdirectory
			add(top, envWith(env, "GIT_DIR="+rr.dir), sizerBin(), sargs...)            // GIT_DIR from outside
			add(top, env, "git", append([]string{"-C", w, "sizer"}, sargs...)...)      // git -C <dir> sizer
			add(bare, env, sizerBin(), sargs...)                                       // bare repository
			if wt != "" {
				add(wt, env, sizerBin(), sargs...) // linked worktree
			}
			// a relative GIT_DIR from a subdirectory, plainly and with the subdirectory entered through a
			// symbolic link whose own parent is elsewhere (the kernel resolves "..", the logical $PWD does not)
			add(filepath.Join(w, "sub", "dir"), envWith(env, "GIT_DIR=../../.git"), sizerBin(), sargs...)
			os.MkdirAll(filepath.Join(top, "other"), 0o755)
			link := filepath.Join(top, "other", "link")
			if os.Symlink(filepath.Join(w, "sub", "dir"), link) == nil {
				add(link, envWith(env, "GIT_DIR=../../.git", "PWD="+link), sizerBin(), sargs...)
				add(link, envWith(env, "PWD="+link), sizerBin(), sargs...)
			}
			// git made talkative on stderr by the caller (GIT_TRACE): the answers git-sizer reads from git's stdout
			// must not change (seeded change C10k read the `shallow` path with CombinedOutput)
			add(w, envWith(env, "GIT_TRACE=1"), sizerBin(), sargs...)
			if in[3] != "-" {
				// the caller's environment names the graft file explicitly
				add(w, envWith(env, "GIT_GRAFT_FILE="+filepath.Join(rr.dir, "info", "grafts")), sizerBin(), sargs...)
			}
			var codes, hashes []string
			for _, x := range results {
				codes = append(codes, strconv.Itoa(x.code))
				hashes = append(hashes, sha(x.out)+"/"+strconv.Itoa(len(x.out)))
			}
			nums, wits, _, ok := parseV1(results[0].out)
			first := "-"
			wc := "-"
			if ok {
				first = nums
				wc = witnessCheck(rr, wits)
			}
			// HEAD is per worktree: in the linked worktree (detached at the first commit) `git-sizer HEAD`
			// measures THAT commit (seeded change C13n resolved the common git dir, i.e. the main work tree's HEAD)
			wtHead := "-"
			if cs := indicesOf(objs, 'c'); wt != "" && len(cs) > 0 {
				nargs := []string{"--json", "--json-version=1", "--no-progress", "--names=none"}
				o1, _, c1 := runCmd(wt, env, nil, sizerBin(), append(append([]string{}, nargs...), "HEAD")...)
				o2, _, c2 := runCmd(w, env, nil, sizerBin(), append(append([]string{}, nargs...), rr.oids[cs[0]])...)
				if c1 == -9 || c2 == -9 {
					wtHead = "-" // a run killed at the hang limit says nothing about addressing
				} else if c1 == c2 && bytes.Equal(o1, o2) {
					wtHead = "1"
				} else {
					wtHead = "0"
				}
			}
			// a ROOT argument that makes git OPEN a commit which has a replacement or a graft (`X^{tree}`, `X^`):
			// it must resolve in the real object graph, like everything else (seeded change C13k resolved ROOTs
			// without --no-replace-objects / GIT_GRAFT_FILE)
			rootReal := "-"
			if in[6] != "1" {
				nargs := []string{"--json", "--json-version=1", "--no-progress", "--names=none"}
				check := func(expr string, real int) {
					o1, _, c1 := runCmd(w, env, nil, sizerBin(), append(append([]string{}, nargs...), expr)...)
					o2, _, c2 := runCmd(w, env, nil, sizerBin(), append(append([]string{}, nargs...), rr.oids[real])...)
					if c1 == -9 || c2 == -9 {
						return
					}
					if c1 == c2 && bytes.Equal(o1, o2) {
						if rootReal == "-" {
							rootReal = "1"
						}
					} else {
						rootReal = "0"
					}
				}
				for _, rf := range refs {
					kv := strings.SplitN(rf, "=", 2)
					if strings.HasPrefix(kv[0], "refs/replace/#") {
						a, _ := strconv.Atoi(strings.TrimPrefix(kv[0], "refs/replace/#"))
						if a < len(objs) && objs[a].kind == 'c' {
							check(rr.oids[a]+"^{tree}", objs[a].tree)
						}
					}
				}
				for _, line := range splitOrNil(in[3], ",") {
					p := strings.SplitN(line, ">", 2)
					a, _ := strconv.Atoi(p[0])
					if a < len(objs) && objs[a].kind == 'c' && len(objs[a].parents) > 0 {
						check(rr.oids[a]+"^", objs[a].parents[0])
					}
				}
			}
			return []string{"ran", strings.Join(codes, ","), strings.Join(hashes, ","), first, wc, wtHead, rootReal}
		},
		class: func(in, res []string) string {
			c := "plain"
			if strings.Contains(in[2], "refs/replace/") || in[3] != "-" {
				c = "replace+graft"
			}
			if in[6] == "1" {
				c = "shallow"
			}
			return res[0] + "/" + c
		},
	})

	// ------------------------------------------------------------ rw (C17, C18)
	register(&engine{
		name: "rw",
		gen: func(r *rng, i int, tier string) []string {
			var objs []gObj
			var times []int64
			for try := 0; try < 5; try++ {
				objs, times = genE2ERepo(r, tier)
				if !hasDuplicateObjects(objs, times) {
					break
				}
			}
			objs = realSizes(objs, times)
			refs := genE2ERefs(r, objs)
			args, roots := genSelection(r, objs, refs)
			style := []string{"full", "hash", "none"}[r.n(3)]
			format := []string{"table", "json1", "json2"}[r.n(3)]
			if r.n(3) == 0 {
				// several roots whose objects tie for every maximum and carry the same date: the
				// cited witnesses then depend on the order in which the roots are fed and processed
				objs, times, refs = tieRepo(r)
				objs = realSizes(objs, times)
				args, roots = nil, nil
				for _, rf := range refs { // all references are selected
					idx, _ := refIdx(strings.SplitN(rf, "=", 2)[1])
					roots = append(roots, idx)
				}
				if style == "none" {
					style = "full"
				}
				if r.coin(1, 2) {
					// the same tied objects named as ROOT arguments (branches and tags, 4-8 different objects): they
					// must be fed in command-line order on every run (seeded C17n ranged over a map of them)
					roots = nil
					for _, rf := range refs {
						kv := strings.SplitN(rf, "=", 2)
						idx, _ := refIdx(kv[1])
						args = append(args, kv[0])
						roots = append(roots, idx)
					}
				}
			}
			if r.n(8) == 0 {
				// several ROOT arguments naming the same commit: which of them names the cited objects must
				// not depend on timing (seeded C17y resolved the arguments concurrently)
				cs := indicesOf(objs, 'c')
				if len(cs) > 0 {
					c := cs[r.n(len(cs))]
					k := 2 + r.n(3)
					args, roots = nil, nil
					for j := 0; j < k; j++ {
						nm := fmt.Sprintf("refs/heads/same-%c", 'a'+j)
						refs = append(refs, fmt.Sprintf("%s=%d", nm, c))
						args = append(args, nm)
						roots = append(roots, c)
					}
					style = "full"
				}
			}
			if r.n(6) == 0 {
				// two or three threshold shorthands on one command line: the last one wins on every run
				// (seeded C17q applied them by ranging over a map)
				th := []string{"--verbose", "--critical", "--no-verbose", "-v", "--threshold=2"}
				k := 2 + r.n(2)
				for j := 0; j < k; j++ {
					args = append(args, th[r.n(len(th))])
				}
				format = []string{"table", "json2"}[r.n(2)]
			}
			heavy := 64 // one heavy case of each kind per 64 cases (per 512 in the thorough tier, which runs 50 times more cases)
			if tier == "thorough" {
				heavy = 512
			}
			if i%heavy == 13 {
				// thousands of references with long names (a `for-each-ref` listing far above one pipe buffer) and, in
				// exec, a hundred and fifty regular-expression refgroups that make the consumer of that listing slow: every
				// reference must be seen on every run (seeded change C17k bounded the wait for the consumer: WaitDelay)
				objs = []gObj{{kind: 'b', size: 20}, {kind: 't', entries: []gEntry{{0o100644, []byte("f"), 0}}}, {kind: 'c', tree: 1, pad: 5}}
				times = []int64{1600000000, 1600000000, 1600000000}
				objs = realSizes(objs, times)
				refs = nil
				for k := 0; k < 1500; k++ {
					refs = append(refs, fmt.Sprintf("refs/heads/topic-with-a-rather-long-name-%04d=2", k))
				}
				args, roots = nil, nil
				for range refs {
					roots = append(roots, 2)
				}
				format = "json1"
			} else if i%heavy == 29 {
				// two versions of a directory with 34 000 entries: tree objects above 1 MiB that follow one another in
				// the `cat-file --batch` stream (seeded change C17g reused one buffer for objects of 1 MiB and more)
				objs = []gObj{{kind: 'b', size: 12}}
				parent := -1
				for v := 0; v < 2; v++ {
					es := make([]gEntry, 0, 34000)
					for k := 0; k < 34000; k++ {
						name := fmt.Sprintf("entry-%05d-v%d", k, v*(k%2))
						es = append(es, gEntry{0o100644, []byte(name), 0})
					}
					objs = append(objs, gObj{kind: 't', entries: es})
					c := gObj{kind: 'c', tree: len(objs) - 1, pad: 5}
					if parent >= 0 {
						c.parents = []int{parent}
					}
					objs = append(objs, c)
					parent = len(objs) - 1
				}
				times = []int64{1600000000, 1600000001, 1600000002, 1600000003, 1600000004}
				objs = realSizes(objs, times)
				refs = []string{fmt.Sprintf("refs/heads/main=%d", parent)}
				args, roots = nil, []int{parent}
				format = "json1"
			} else if r.n(12) == 0 {
				objs, times, refs = bigTreeRepo(r)
				objs = realSizes(objs, times)
				args, roots = nil, nil
				for _, rf := range refs {
					idx, _ := refIdx(strings.SplitN(rf, "=", 2)[1])
					roots = append(roots, idx)
				}
			}
			return []string{encRepo(objs), timesJoin(times), joinOrDash(refs, ","), encArgs(args), intsJoin(roots), style, format}
		},
		exec: func(in []string) []string {
			objs := decRepo(in[0])
			times := timesSplit(in[1])
			refs := splitOrNil(in[2], ",")
			args := decArgs(in[3])
			if hasDuplicateObjects(objs, times) {
				return []string{"dup"}
			}
			rr, err := buildRepoKind(objs, times, refs, false)
			if err != nil {
				return []string{"setup-failed", hxs(err.Error())}
			}
			defer rr.cleanup()
			w := filepath.Dir(rr.dir)
			os.WriteFile(filepath.Join(w, "untracked.txt"), []byte("work tree file\n"), 0o644)
			if len(refs) >= 1500 {
				var b strings.Builder
				for k := 0; k < 150; k++ {
					fmt.Fprintf(&b, "[refgroup \"g%03d\"]\n\tincludeRegexp = refs/heads/.*-.*%d.*\n", k, k)
				}
				if f, err := os.OpenFile(filepath.Join(rr.dir, "config"), os.O_APPEND|os.O_WRONLY, 0o644); err == nil {
					f.WriteString(b.String())
					f.Close()
				}
			} else if len(objs)%3 == 0 {
				// eight sibling refgroups defined in the repository's gitconfig, each matching every reference: their
				// rows appear in the order of first mention, on every run (seeded change C17m collected them in a map)
				var b strings.Builder
				for k := 0; k < 8; k++ {
					fmt.Fprintf(&b, "[refgroup \"team-%c\"]\n\tinclude = refs/\n", "hcafdbge"[k])
				}
				if f, err := os.OpenFile(filepath.Join(rr.dir, "config"), os.O_APPEND|os.O_WRONLY, 0o644); err == nil {
					f.WriteString(b.String())
					f.Close()
				}
			}
			var fmtArgs []string
			switch in[6] {
			case "json1":
				fmtArgs = []string{"--json", "--json-version=1"}
			case "json2":
				fmtArgs = []string{"--json", "--json-version=2"}
			default:
				fmtArgs = []string{"--verbose"}
			}
			sargs := append(append([]string{"--names=" + in[5]}, fmtArgs...), substArgs(args, rr)...)
			// this engine has heavy cases (thousands of references with hundreds of regular-expression groups, trees
			// above 1 MiB) and a pass under the -race build, which is 5-10 times slower: the hang limit is raised
			hangLimit = 90 * time.Second
			if os.Getenv("VERIF_RACE") == "1" {
				hangLimit = 300 * time.Second
			}
			defer func() { hangLimit = 60 * time.Second }()
			before := snapshotDir(w)
			bin := sizerBin()
			if os.Getenv("VERIF_RACE") == "1" {
				bin += "-race"
			}
			o1, e1, c1 := runCmd(w, envWith(gitEnv(), "GOMAXPROCS=1"), nil, bin, append([]string{"--no-progress"}, sargs...)...)
			// the --progress run sometimes has a narrow COLUMNS in its environment: the final lines must still carry
			// the whole count (seeded change C18g cut progress lines to the terminal width, through the digits)
			cols := []string{"GOMAXPROCS=16", "COLUMNS=30", "COLUMNS=12"}[len(objs)%3]
			o2, e2, c2 := runCmd(w, envWith(gitEnv(), "GOMAXPROCS=16", cols), nil, bin, append([]string{"--progress"}, sargs...)...)
			o3, _, c3 := runCmd(w, envWith(gitEnv(), "GOMAXPROCS=4"), nil, bin, append([]string{"--no-progress"}, sargs...)...)
			same := bytes.Equal(o1, o2) && bytes.Equal(o1, o3)
			for k := 0; k < 3 && same; k++ { // further runs: randomised iteration orders show up only sometimes
				ok, _, ck := runCmd(w, envWith(gitEnv(), "GOMAXPROCS="+strconv.Itoa(2+k)), nil, bin, append([]string{"--no-progress"}, sargs...)...)
				same = same && bytes.Equal(o1, ok) && ck == c1
			}
			// progress reporting must not change stdout even when stderr cannot be written to (a full disk):
			// the same run with --progress and stderr on /dev/full
			if _, err := os.Stat("/dev/full"); err == nil && same && os.Getenv("VERIF_RACE") != "1" {
				sh := append([]string{"-c", `exec "$0" "$@" 2>/dev/full`, bin, "--progress"}, sargs...)
				of, _, cf := runCmd(w, envWith(gitEnv(), "GOMAXPROCS=4"), nil, "/bin/sh", sh...)
				same = bytes.Equal(o1, of) && cf == c1
			}
			after := snapshotDir(w)
			race := bytes.Contains(e1, []byte("DATA RACE")) || bytes.Contains(e2, []byte("DATA RACE"))
			var counts []string
			for _, m := range progressRe.FindAllSubmatch(e2, -1) {
				counts = append(counts, hxs(string(m[1]))+"="+string(m[2]))
			}
			return []string{"ran", fmt.Sprintf("%d,%d,%d", c1, c2, c3), boolStr(same), boolStr(before == after),
				boolStr(race), joinOrDash(counts, ","), boolStr(len(e1) == 0), strconv.Itoa(len(o1))}
		},
		class: func(in, res []string) string { return res[0] + "/" + in[6] + "/" + in[5] },
	})

	// ------------------------------------------------------------ fault (C10)
	targets := []string{"rev-parse --git-dir", "rev-parse --git-path", "config --list", "for-each-ref",
		"config --get --int sizer.jsonVersion", "config --get sizer.threshold", "config --get sizer.names", "config --get --bool sizer.progress",
		"rev-parse --verify", "rev-list", "cat-file --batch-check", "cat-file --batch --buffer"}
	register(&engine{
		name: "fault",
		gen: func(r *rng, i int, tier string) []string {
			var objs []gObj
			var times []int64
			for try := 0; try < 5; try++ {
				objs, times = genE2ERepo(r, tier)
				if !hasDuplicateObjects(objs, times) {
					break
				}
			}
			objs = realSizes(objs, times)
			refs := genE2ERefs(r, objs)
			args, roots := genSelection(r, objs, refs)
			target := targets[r.n(len(targets))]
			if r.coin(1, 3) {
				target = targets[9+r.n(3)]
			}
			permille := []int{0, 1000, 1000, 500, 250, 900, 999, 1}[r.n(8)]
			if r.coin(1, 3) {
				permille = r.n(1001)
			}
			align := r.n(4)
			exit := []int{-1, 1, 1, 2, 3, 128, 129}[r.n(7)]
			kill := 0
			if r.coin(1, 4) {
				kill = 1
				exit = -1
			}
			// a removed object: the index of an object whose loose file is deleted ("-1" = none)
			missing := -1
			if r.coin(1, 6) {
				missing = r.n(len(objs))
				target, permille, align, exit, kill = "nothing", 1000, 0, -1, 0
			}
			format := []string{"table", "json1"}[r.n(2)]
			if r.coin(1, 8) {
				// thousands of roots (more than the pipes between the feeder and rev-list hold) and a
				// subprocess of the first pipeline that dies before it has read its input
				tgt := r.n(len(objs))
				refs = append(refs, fmt.Sprintf("refs/heads/m/*5000=%d", tgt))
				args, roots = nil, nil
				for _, rf := range refs {
					idx, _ := refIdx(strings.SplitN(rf, "=", 2)[1])
					roots = append(roots, idx)
				}
				target = []string{"rev-list", "rev-list", "cat-file --batch-check", "cat-file --batch --buffer"}[r.n(4)]
				permille, align, missing = -1, 0, -1
				kill = r.n(2)
				exit = -1
				if kill == 0 {
					exit = []int{1, 128}[r.n(2)]
				}
			}
			return []string{encRepo(objs), timesJoin(times), joinOrDash(refs, ","), encArgs(args),
				fmt.Sprintf("%s|%d|%d|%d|%d", target, permille, align, exit, kill), strconv.Itoa(missing), format, intsJoin(roots)}
		},
		exec: func(in []string) []string {
			objs := decRepo(in[0])
			times := timesSplit(in[1])
			refs := expandManyRefs(splitOrNil(in[2], ","))
			args := decArgs(in[3])
			if hasDuplicateObjects(objs, times) {
				return []string{"dup"}
			}
			rr, err := buildRepo(objs, times, refs)
			if err != nil {
				return []string{"setup-failed", hxs(err.Error())}
			}
			defer rr.cleanup()
			var fmtArgs []string
			if in[6] == "json1" {
				fmtArgs = []string{"--json"}
			} else {
				fmtArgs = []string{"--verbose"}
			}
			sargs := append(append([]string{"--no-progress"}, fmtArgs...), substArgs(args, rr)...)
			base := gitEnv()
			o0, _, c0 := runCmd(rr.dir, base, nil, sizerBin(), sargs...)
			missing, _ := strconv.Atoi(in[5])
			if missing >= 0 {
				oid := rr.oids[missing]
				p := filepath.Join(rr.dir, "objects", oid[:2], oid[2:])
				os.Chmod(p, 0o644)
				os.Remove(p)
			}
			top := filepath.Dir(rr.dir)
			sd := shimDir(top)
			logf := filepath.Join(top, "shim.log")
			env := envWith(base, "PATH="+sd+string(os.PathListSeparator)+os.Getenv("PATH"), "VERIF_SHIM="+in[4], "VERIF_REAL_GIT="+realGitPath(), "VERIF_SHIM_LOG="+logf)
			o1, e1, c1 := runCmd(rr.dir, env, nil, sizerBin(), sargs...)
			hits := 0
			if b, err := os.ReadFile(logf); err == nil {
				hits = bytes.Count(b, []byte("\n"))
			}
			// did the targeted invocation happen at all, and did it fail? ask the shim's view: rerun the
			// real command is not possible in general, so report what is observable
			cls := "other"
			if len(o1) == 0 {
				cls = "empty"
			} else if bytes.Equal(o1, o0) {
				cls = "same"
			}
			return []string{"ran", strconv.Itoa(c0), strconv.Itoa(c1), cls, boolStr(len(e1) > 0), hx(firstLine(e1)), strconv.Itoa(hits)}
		},
		class: func(in, res []string) string {
			f := strings.Split(in[4], "|")
			k := "fault"
			if in[5] != "-1" {
				k = "missing-object"
			}
			if len(res) > 3 {
				return k + "/" + f[0] + "/" + res[3]
			}
			return k + "/" + res[0]
		},
	})
}

// "refs/heads/m/*5000=7" stands for 5000 references refs/heads/m/0000 … pointing at object 7
func expandManyRefs(refs []string) []string {
	var out []string
	for _, rf := range refs {
		kv := strings.SplitN(rf, "=", 2)
		if i := strings.Index(kv[0], "*"); i >= 0 {
			n, _ := strconv.Atoi(kv[0][i+1:])
			for k := 0; k < n; k++ {
				out = append(out, fmt.Sprintf("%s%04d=%s", kv[0][:i], k, kv[1]))
			}
			continue
		}
		out = append(out, rf)
	}
	sort.Strings(out)
	return out
}

func firstLine(b []byte) []byte {
	if i := bytes.IndexByte(b, '\n'); i >= 0 {
		b = b[:i]
	}
	if len(b) > 200 {
		b = b[:200]
	}
	return b
}

var _ = io.EOF
