//go:build verif

package main

import (
	"encoding/hex"
	"hash/fnv"
	"strconv"
)

// rng is splitmix64; every random choice of a case derives from (seed, engine, case number).
type rng struct{ s uint64 }

func newRng(seed uint64, engine string, i uint64) *rng {
	h := fnv.New64a()
	h.Write([]byte(engine))
	r := &rng{s: seed*0x9E3779B97F4A7C15 ^ h.Sum64() ^ (i+1)*0xBF58476D1CE4E5B9}
	r.u64()
	return r
}

func (r *rng) u64() uint64 {
	r.s += 0x9E3779B97F4A7C15
	z := r.s
	z = (z ^ (z >> 30)) * 0xBF58476D1CE4E5B9
	z = (z ^ (z >> 27)) * 0x94D049BB133111EB
	return z ^ (z >> 31)
}

// n returns a value in [0, k).
func (r *rng) n(k int) int {
	if k <= 0 {
		return 0
	}
	return int(r.u64() % uint64(k))
}

func (r *rng) coin(num, den int) bool { return r.n(den) < num }

func (r *rng) pick(xs []string) string { return xs[r.n(len(xs))] }

func (r *rng) shuffle(n int, swap func(i, j int)) {
	for i := n - 1; i > 0; i-- {
		swap(i, r.n(i+1))
	}
}

func hx(b []byte) string {
	if len(b) == 0 {
		return "-"
	}
	return hex.EncodeToString(b)
}

func hxs(s string) string { return hx([]byte(s)) }

func unhx(s string) []byte {
	if s == "-" || s == "" {
		return nil
	}
	b, err := hex.DecodeString(s)
	if err != nil {
		panic("bad hex field: " + s)
	}
	return b
}

func u(n uint64) string { return strconv.FormatUint(n, 10) }

func atou(s string) uint64 {
	n, err := strconv.ParseUint(s, 10, 64)
	if err != nil {
		panic("bad number field: " + s)
	}
	return n
}

func boolStr(b bool) string {
	if b {
		return "1"
	}
	return "0"
}
