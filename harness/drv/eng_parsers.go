//go:build verif

package main

import (
	"bytes"
	"encoding/hex"
	"fmt"
	"strings"

	"github.com/github/git-sizer/git"
)

func randOID(r *rng) []byte {
	b := make([]byte, 20)
	for i := range b {
		b[i] = byte(r.u64())
	}
	switch r.n(6) {
	case 0:
		b[r.n(20)] = 0
	case 1:
		b[r.n(20)] = ' '
	case 2:
		b[r.n(20)] = '\n'
	}
	return b
}

// any byte but NUL
func randName(r *rng, maxLen int) []byte {
	n := 1 + r.n(maxLen)
	if r.coin(1, 30) {
		n = 200 + r.n(200)
	}
	b := make([]byte, n)
	for i := range b {
		switch r.n(8) {
		case 0:
			b[i] = byte(1 + r.n(255))
		case 1:
			b[i] = " \n\t\"\\/:[]"[r.n(9)]
		default:
			b[i] = "abcdefghijklmnopqrstuvwxyz0123456789._-"[r.n(39)]
		}
	}
	return b
}

var treeModes = []uint64{0o100644, 0o100755, 0o40000, 0o120000, 0o160000, 0o100664, 0o644, 0, 7, 0o37777777777, 0o140000, 0o170000, 0o60000}

type tEntry struct {
	mode uint64
	name []byte
	oid  []byte
}

func serTree(es []tEntry) []byte {
	var b bytes.Buffer
	for _, e := range es {
		fmt.Fprintf(&b, "%o ", e.mode)
		b.Write(e.name)
		b.WriteByte(0)
		b.Write(e.oid)
	}
	return b.Bytes()
}

func encEntries(es []tEntry) string {
	if len(es) == 0 {
		return "-"
	}
	var parts []string
	for _, e := range es {
		parts = append(parts, fmt.Sprintf("%d:%s:%s", e.mode, hx(e.name), hx(e.oid)))
	}
	return strings.Join(parts, ",")
}

func mutate(r *rng, data []byte) []byte {
	d := append([]byte{}, data...)
	switch r.n(7) {
	case 0: // truncate
		if len(d) > 0 {
			d = d[:r.n(len(d))]
		}
	case 1: // flip a byte
		if len(d) > 0 {
			d[r.n(len(d))] = byte(r.u64())
		}
	case 2: // insert interesting byte
		pos := r.n(len(d) + 1)
		c := []byte{0, ' ', '\n', '8', '+', '-', '_', '0', 'x'}[r.n(9)]
		d = append(d[:pos], append([]byte{c}, d[pos:]...)...)
	case 3: // delete a byte
		if len(d) > 0 {
			pos := r.n(len(d))
			d = append(d[:pos], d[pos+1:]...)
		}
	case 4: // splice two halves
		if len(d) > 2 {
			a, b := r.n(len(d)), r.n(len(d))
			if a > b {
				a, b = b, a
			}
			d = append(append([]byte{}, d[b:]...), d[:a]...)
		}
	case 5: // duplicate a chunk
		if len(d) > 0 {
			a := r.n(len(d))
			d = append(d, d[a:]...)
		}
	default: // random bytes
		n := r.n(60)
		d = make([]byte, n)
		for i := range d {
			d[i] = byte(r.u64())
		}
	}
	return d
}

type hdr struct{ k, v []byte }

var sigBlock = "-----BEGIN PGP SIGNATURE-----\n \n iQEzBAABCAAdFiEE\n tree 0000000000000000000000000000000000000000\n parent 1111111111111111111111111111111111111111\n -----END PGP SIGNATURE-----"
var mergeTag = "object 2222222222222222222222222222222222222222\n type commit\n tag v1\n tagger T <t@e> 1 +0000\n \n parent of nothing"

func genExtras(r *rng, tag bool) []hdr {
	var hs []hdr
	if tag {
		if r.coin(9, 10) {
			hs = append(hs, hdr{[]byte("tag"), randHeaderValue(r)})
		}
		if r.coin(4, 5) {
			hs = append(hs, hdr{[]byte("tagger"), []byte("A U Thor <a@example.com> 1234567890 +0000")})
		}
	} else {
		if r.coin(9, 10) {
			hs = append(hs, hdr{[]byte("author"), []byte("A U Thor <a@example.com> 1234567890 +0000")})
		}
		if r.coin(9, 10) {
			hs = append(hs, hdr{[]byte("committer"), []byte("C O Mitter <c@example.com> 1234567890 -0100")})
		}
		if r.coin(1, 5) {
			hs = append(hs, hdr{[]byte("encoding"), []byte("ISO-8859-1")})
		}
		if r.coin(1, 3) {
			hs = append(hs, hdr{[]byte("mergetag"), []byte(mergeTag)})
		}
	}
	if r.coin(1, 3) {
		hs = append(hs, hdr{[]byte("gpgsig"), []byte(sigBlock)})
	}
	if r.coin(1, 6) {
		hs = append(hs, hdr{[]byte("x-" + string(randHeaderValue(r)[:1])), randHeaderValue(r)})
	}
	if r.coin(1, 80) {
		// one header line longer than 64 KiB (a huge signature, say): line readers with a fixed token limit stop here
		hs = append(hs, hdr{[]byte("x-long"), bytes.Repeat([]byte("0123456789abcdef"), 4200+r.n(800))})
	}
	if r.coin(1, 4) {
		r.shuffle(len(hs), func(i, j int) { hs[i], hs[j] = hs[j], hs[i] })
	}
	// extra headers git accepts after the first other header, spelt like a tree / parent /
	// object / type line: they are none of those (git reads the tree line first and the parents
	// directly after it; object and type are the first two lines of a tag)
	if len(hs) >= 1 && r.coin(1, 5) {
		var fake hdr
		val := []byte(hex.EncodeToString(randOID(r)))
		if r.coin(1, 4) {
			val = []byte("of nothing")
		}
		if tag {
			fake = []hdr{{[]byte("object"), val}, {[]byte("type"), []byte("blob")}}[r.n(2)]
		} else {
			fake = []hdr{{[]byte("parent"), val}, {[]byte("tree"), val}}[r.n(2)]
		}
		at := 1 + r.n(len(hs))
		hs = append(hs[:at], append([]hdr{fake}, hs[at:]...)...)
	}
	// a continuation line (a line starting with a space) DIRECTLY after the leading block — git's own
	// parser stops reading parents (object/type) there — followed by a line spelt like a parent / tree /
	// object / type: still none of those (seeded change C16u hid continuation lines from the callers)
	if r.coin(1, 8) {
		val := []byte(hex.EncodeToString(randOID(r)))
		var fake hdr
		if tag {
			fake = []hdr{{[]byte("object"), val}, {[]byte("type"), []byte("commit")}}[r.n(2)]
		} else {
			fake = []hdr{{[]byte("parent"), val}, {[]byte("tree"), val}}[r.n(2)]
		}
		lead := []hdr{{[]byte(""), randHeaderValue(r)}}
		if r.coin(1, 2) {
			// the continuation line itself imitates a header of the leading block (" parent <oid>"):
			// a parser that trims leading blanks would read it as one (seeded change C16)
			v2 := hex.EncodeToString(randOID(r))
			if tag {
				lead = []hdr{{[]byte(""), []byte([]string{"object " + v2, "type blob"}[r.n(2)])}}
			} else {
				lead = []hdr{{[]byte(""), []byte([]string{"parent " + v2, "tree " + v2}[r.n(2)])}}
			}
		}
		if r.coin(1, 2) {
			lead = append(lead, hdr{[]byte(""), []byte("second continuation line")})
		}
		hs = append(append(lead, fake), hs...)
	}
	return hs
}

// single-line value without LF, may contain spaces and odd bytes
func randHeaderValue(r *rng) []byte {
	n := 1 + r.n(20)
	b := make([]byte, n)
	for i := range b {
		if r.coin(1, 10) {
			b[i] = byte(11 + r.n(240)) // never LF (10) or NUL
			if b[i] == ' ' {
				b[i] = 'x'
			}
		} else {
			b[i] = "abcdefghijklmnopqrstuvwxyz0123456789 ._-<>@"[r.n(43)]
		}
	}
	if b[0] == ' ' {
		b[0] = 'v'
	}
	return b
}

func genMessage(r *rng) (msg []byte, has bool) {
	switch r.n(6) {
	case 0:
		return nil, false
	case 1:
		return []byte{}, true
	case 2:
		return []byte("subject\n\ntree 3333333333333333333333333333333333333333\nparent 4444444444444444444444444444444444444444\nobject 5555555555555555555555555555555555555555\ntype blob\n"), true
	case 3:
		return []byte("parent 4444444444444444444444444444444444444444\n"), true
	case 4:
		return []byte("no trailing newline"), true
	default:
		return append(randName(r, 60), '\n'), true
	}
}

func serHeaders(hs []hdr) []byte {
	var b bytes.Buffer
	for _, h := range hs {
		b.Write(h.k)
		b.WriteByte(' ')
		b.Write(h.v)
		b.WriteByte('\n')
	}
	return b.Bytes()
}

func encHdrs(hs []hdr) string {
	if len(hs) == 0 {
		return "-"
	}
	var parts []string
	for _, h := range hs {
		parts = append(parts, hx(h.k)+":"+hx(h.v))
	}
	return strings.Join(parts, ",")
}

func encOids(os [][]byte) string {
	if len(os) == 0 {
		return "-"
	}
	var parts []string
	for _, o := range os {
		parts = append(parts, hx(o))
	}
	return strings.Join(parts, ",")
}

func init() {
	register(&engine{
		name: "parsers",
		gen: func(r *rng, i int, tier string) []string {
			kinds := []string{"tree", "tree", "commit", "commit", "tag", "batch", "ref", "oid"}
			kind := kinds[i%len(kinds)]
			structured := r.coin(1, 2)
			switch kind {
			case "tree":
				n := r.n(9)
				if r.coin(1, 20) {
					n = 30 + r.n(40)
				}
				var es []tEntry
				for j := 0; j < n; j++ {
					es = append(es, tEntry{treeModes[r.n(len(treeModes))], randName(r, 24), randOID(r)})
				}
				data := serTree(es)
				if structured {
					return []string{"tree", hx(data), encEntries(es)}
				}
				return []string{"tree", hx(mutate(r, data)), "?"}
			case "commit":
				tree := randOID(r)
				var parents [][]byte
				np := r.n(4)
				if r.coin(1, 10) {
					np = 5 + r.n(20)
				}
				for j := 0; j < np; j++ {
					if j > 0 && r.coin(1, 6) {
						// the same parent listed again (git hash-object and fsck accept it): it IS a parent line
						// of the header block (seeded C16y de-duplicated them)
						parents = append(parents, parents[r.n(len(parents))])
						continue
					}
					parents = append(parents, randOID(r))
				}
				hs := []hdr{{[]byte("tree"), []byte(hex.EncodeToString(tree))}}
				for _, p := range parents {
					hs = append(hs, hdr{[]byte("parent"), []byte(hex.EncodeToString(p))})
				}
				hs = append(hs, genExtras(r, false)...)
				data := serHeaders(hs)
				msg, has := genMessage(r)
				if has {
					data = append(append(data, '\n'), msg...)
				}
				if structured {
					return []string{"commit", hx(data), hx(tree) + ";" + encOids(parents)}
				}
				return []string{"commit", hx(mutate(r, data)), "?"}
			case "tag":
				obj := randOID(r)
				typ := []string{"commit", "tag", "tree", "blob", "weird type"}[r.n(5)]
				hs := []hdr{{[]byte("object"), []byte(hex.EncodeToString(obj))}, {[]byte("type"), []byte(typ)}}
				hs = append(hs, genExtras(r, true)...)
				data := serHeaders(hs)
				msg, has := genMessage(r)
				if has {
					data = append(append(data, '\n'), msg...)
				}
				if structured {
					return []string{"tag", hx(data), hx(obj) + ";" + hxs(typ)}
				}
				return []string{"tag", hx(mutate(r, data)), "?"}
			case "batch":
				oid := hex.EncodeToString(randOID(r))
				typ := []string{"blob", "tree", "commit", "tag"}[r.n(4)]
				size := genU64(r)
				if r.coin(1, 2) {
					size = uint64(r.n(100000))
				}
				line := fmt.Sprintf("%s %s %d\n", oid, typ, size)
				if r.coin(1, 8) {
					line = oid + " missing\n"
				}
				switch r.n(4) {
				case 0:
					return []string{"batch", hxs(line), oid + ";" + hxs(typ) + ";" + u(size)}
				case 1: // every truncation point is reachable: choose one
					return []string{"batch", hxs(line[:r.n(len(line)+1)]), "?"}
				case 2:
					return []string{"batch", hx(mutate(r, []byte(line))), "?"}
				default:
					extra := []string{"", "\n", " ", "  \n", "missing\n", " missing\n", "a b\n", "a b c\n", oid + "\n", oid + " blob\n", oid + " blob \n", oid + " blob 12x\n", oid + " blob -1\n", oid + " blob +1\n", oid + " blob 18446744073709551616\n", oid + " blob 1_0\n"}
					return []string{"batch", hxs(extra[r.n(len(extra))]), "?"}
				}
			case "ref":
				oid := hex.EncodeToString(randOID(r))
				typ := []string{"blob", "tree", "commit", "tag"}[r.n(4)]
				size := uint64(r.n(1 << 20))
				if r.coin(1, 4) {
					size = genU64(r)
				}
				name := "refs/" + strings.ReplaceAll(string(randHeaderValue(r)), " ", "-")
				line := fmt.Sprintf("%s %s %d %s", oid, typ, size, name)
				if r.coin(1, 2) {
					return []string{"ref", hxs(line), oid + ";" + hxs(typ) + ";" + u(size) + ";" + hxs(name)}
				}
				if r.coin(1, 2) {
					return []string{"ref", hxs(line[:r.n(len(line)+1)]), "?"}
				}
				return []string{"ref", hx(mutate(r, []byte(line))), "?"}
			default: // oid
				o := randOID(r)
				s := hex.EncodeToString(o)
				switch r.n(5) {
				case 0:
					s = strings.ToUpper(s)
				case 1:
					s = s[:r.n(41)]
				case 2:
					s = string(mutate(r, []byte(s)))
				case 3:
					s += "00"
				}
				return []string{"oid", hxs(s), "?"}
			}
		},
		exec: func(in []string) []string {
			data := unhx(in[1])
			var oid git.OID
			switch in[0] {
			case "tree":
				tree, err := git.ParseTree(oid, data)
				if err != nil {
					return []string{"err"}
				}
				iter := tree.Iter()
				var parts []string
				for steps := 0; ; steps++ {
					if steps > len(data)+2 {
						return []string{"loop"}
					}
					e, ok, err := iter.NextEntry()
					if err != nil {
						return []string{"err"}
					}
					if !ok {
						break
					}
					parts = append(parts, fmt.Sprintf("%d:%s:%s", e.Filemode, hxs(e.Name), hx(e.OID.Bytes())))
				}
				if len(parts) == 0 {
					return []string{"ok", "-", u(uint64(tree.Size()))}
				}
				return []string{"ok", strings.Join(parts, ","), u(uint64(tree.Size()))}
			case "commit":
				c, err := git.ParseCommit(oid, data)
				if err != nil {
					return []string{"err"}
				}
				var ps [][]byte
				for _, p := range c.Parents {
					ps = append(ps, append([]byte{}, p.Bytes()...))
				}
				return []string{"ok", u(uint64(c.Size)), hx(c.Tree.Bytes()), encOids(ps)}
			case "tag":
				t, err := git.ParseTag(oid, data)
				if err != nil {
					return []string{"err"}
				}
				return []string{"ok", u(uint64(t.Size)), hx(t.Referent.Bytes()), hxs(string(t.ReferentType))}
			case "batch":
				h, err := git.ParseBatchHeader("", string(data))
				if err != nil {
					return []string{"err"}
				}
				return []string{"ok", hx(h.OID.Bytes()), hxs(string(h.ObjectType)), u(uint64(h.ObjectSize))}
			case "ref":
				rf, err := git.ParseReference(string(data))
				if err != nil {
					return []string{"err"}
				}
				return []string{"ok", hxs(rf.Refname), hxs(string(rf.ObjectType)), u(uint64(rf.ObjectSize)), hx(rf.OID.Bytes())}
			case "oid":
				o, err := git.NewOID(string(data))
				if err != nil {
					return []string{"err"}
				}
				j, _ := o.MarshalJSON()
				return []string{"ok", hx(o.Bytes()), hxs(o.String()), hx(j)}
			}
			panic("bad kind")
		},
		class: func(in, res []string) string {
			s := "mutated"
			if in[2] != "?" {
				s = "structured"
			}
			return in[0] + "/" + s + "/" + res[0]
		},
	})
}
