//go:build verif

package main

import (
	"fmt"
	"strconv"
	"strings"
	"sync"
	"time"

	"github.com/github/git-sizer/meter"
)

type logWriter struct {
	mu    sync.Mutex
	lines []string
}

func (w *logWriter) Write(p []byte) (int, error) {
	w.mu.Lock()
	w.lines = append(w.lines, string(p))
	w.mu.Unlock()
	return len(p), nil
}

func spin(r *rng) {
	switch r.n(4) {
	case 0:
	case 1:
		for i := 0; i < 1+r.n(2000); i++ {
			_ = i * i
		}
	case 2:
		time.Sleep(time.Duration(r.n(50)) * time.Microsecond)
	default:
		time.Sleep(time.Duration(r.n(400)) * time.Microsecond)
	}
}

func init() {
	register(&engine{
		name: "meter",
		gen: func(r *rng, i int, tier string) []string {
			np := 1 + r.n(4)
			var incs []string
			for k := 0; k < np; k++ {
				n := r.n(40)
				if r.coin(1, 6) {
					n = 0
				}
				incs = append(incs, strconv.Itoa(n))
			}
			period := []int{1, 10, 100, 1000, 3000}[r.n(5)] // microseconds
			return []string{strings.Join(incs, ","), strconv.Itoa(period), u(r.u64() >> 8)}
		},
		exec: func(in []string) []string {
			var script []int
			for _, s := range strings.Split(in[0], ",") {
				n, _ := strconv.Atoi(s)
				script = append(script, n)
			}
			periodUs, _ := strconv.Atoi(in[1])
			r := &rng{s: atou(in[2])}
			w := &logWriter{}
			p := meter.NewProgressMeter(w, time.Duration(periodUs)*time.Microsecond)
			for ph, n := range script {
				p.Start(fmt.Sprintf("Phase %d: %%d", ph+1))
				spin(r)
				for k := 0; k < n; k++ {
					p.Inc()
					if r.coin(1, 3) {
						spin(r)
					}
				}
				spin(r)
				p.Done()
				spin(r)
			}
			// let stale tickers fire after the last Done
			time.Sleep(time.Duration(3*periodUs+200) * time.Microsecond)
			w.mu.Lock()
			lines := append([]string{}, w.lines...)
			w.mu.Unlock()
			var out []string
			for _, l := range lines {
				var ph, c int
				if _, err := fmt.Sscanf(l, "Phase %d: %d", &ph, &c); err != nil {
					out = append(out, "bad:"+hxs(l))
					continue
				}
				final := "0"
				if strings.HasSuffix(l, "\n") {
					final = "1"
				} else if !strings.HasSuffix(l, "\r") {
					final = "?"
				}
				out = append(out, fmt.Sprintf("%d:%d:%s", ph, c, final))
			}
			return []string{joinOrDash(out, ",")}
		},
		class: func(in, res []string) string {
			n := strings.Count(res[0], ",") + 1
			c := "only-finals"
			if n > strings.Count(in[0], ",")+1 {
				c = "with-ticks"
			}
			return "period=" + in[1] + "us/" + c
		},
	})
}
