//go:build verif

package main

import (
	"encoding/binary"
	"fmt"
	"strconv"
	"strings"

	"github.com/github/git-sizer/git"
	"github.com/github/git-sizer/sizes"
)

// Engine `paths` (C08): the real InOrderPathResolver driven in-process with operation sequences
// that are consistent with a generated repository (tree entries, commit trees, root names), against
// the Lean model of path_resolver.go; every description it prints is judged by the Lean
// specification of git's revision syntax (Spec/RevParse).

// the object id of repository index i: 20 bytes, big-endian i+1 (never the null id)
func pathsOID(i int) git.OID {
	var b [20]byte
	binary.BigEndian.PutUint64(b[12:], uint64(i+1))
	oid, _ := git.NewOID(fmt.Sprintf("%x", b[:]))
	return oid
}

var pathsEntryNames = []string{"a", "b", "dir", "file.txt", "x y", "src", "a.b", "co:lon", "br{ace", "br}ace", "ca^ret", "t^{tree}", "d^{blob}", "{}", "at@{1}", "q\"uote", "caf\xe9", "n\nl", "-dash", ":lead", "trail:"}
var pathsAtomNames = []string{"refs/heads/main", "refs/heads/dev", "refs/tags/v1", "refs/remotes/origin/x", "HEAD", "main~2", "v1^{}", "refs/heads/a{b", "refs/heads/c}d", "refs/heads/e{f}g", "main@{1}", "@{-1}", "refs/heads/{", "refs/tags/}{", "refs/heads/h{i{j", "abc1234", "refs/heads/w^x"}

// walkTo returns the object the path (list of entry names) leads to from tree t, or -1
func pathsWalk(objs []gObj, t int, comps []string) int {
	cur := t
	for _, c := range comps {
		if cur < 0 || cur >= len(objs) || objs[cur].kind != 't' {
			return -1
		}
		next := -1
		for _, e := range objs[cur].entries {
			if string(e.name) == c {
				next = e.oid
				break
			}
		}
		if next < 0 {
			return -1
		}
		cur = next
	}
	return cur
}

// git's scan for the rev:path separator: is a ':' appended to s hidden by an unclosed '{'?
func pathsOpenBrace(s string) bool {
	depth := 0
	for i := 0; i < len(s); i++ {
		switch {
		case s[i] == '{':
			depth++
		case s[i] == '}' && depth > 0:
			depth--
		}
	}
	return depth > 0
}

func peelToTree(objs []gObj, o int) int {
	for o >= 0 && o < len(objs) {
		switch objs[o].kind {
		case 't':
			return o
		case 'c':
			o = objs[o].tree
		case 'g':
			o = objs[o].ref
		default:
			return -1
		}
	}
	return -1
}

// a crafted scenario that walks through every branch of rootTreePrefix / TreePrefix with awkward
// directory and reference names: commit C -> tree T -> directory <dname> = tree S -> file f
func genPathsScenario(r *rng) []string {
	dnames := []string{"dir", "trail:", "co:lon", ":lead", "a:", "x:y:", "br{ace", "br}ace", "{}", "t^{tree}", "sl ash", "at@{1}", "{{cc}}"}
	fnames := []string{"f", "file}", "{}", "g:", ":h", "x^{blob}", "n\nl"}
	atomsL := []string{"HEAD", "refs/heads/main", "main~2", "refs/heads/a{b", "refs/heads/c}d", "v1^{}", "main@{1}", "refs/heads/e{f}g"}
	dname, fname := dnames[r.n(len(dnames))], fnames[r.n(len(fnames))]
	objs := []gObj{
		{kind: 'b', size: 20},
		{kind: 'b', size: 30},
		{kind: 't', entries: []gEntry{{0o100644, []byte(fname), 0}}},                                            // 2 = S
		{kind: 't', entries: []gEntry{{0o40000, []byte(dname), 2}, {0o100644, []byte(dname + fname), 1}}},       // 3 = T (with a decoy "<dname><fname>")
		{kind: 'c', tree: 3, pad: 5}, // 4 = C
		{kind: 'g', ref: 4, refKind: 'c', pad: 3}, // 5 = annotated tag of C
	}
	a := atomsL[r.n(len(atomsL))]
	atomTarget := []int{4, 4, 5}[r.n(3)]
	atoms := []string{hxs(a) + "=" + strconv.Itoa(atomTarget)}
	name, target := a, atomTarget
	switch r.n(7) {
	case 0:
	case 1:
		name, target = a+"^{tree}", 3
	case 2:
		if !pathsOpenBrace(a) {
			name, target = a+":", 3
		}
	case 3, 4:
		if !pathsOpenBrace(a) {
			name, target = a+":"+dname, 2
		}
	case 5:
		if !pathsOpenBrace(a) {
			name, target = a+":"+dname+"/", 2
		}
	default:
		if !pathsOpenBrace(a) {
			name, target = a+":"+dname+"/"+fname, 0
		}
	}
	names := []string{hxs(name) + "=" + strconv.Itoa(target)}
	ops := []string{"R0:b"}
	if r.coin(1, 2) {
		ops = append(ops, "R2:t")
	}
	if r.coin(1, 3) {
		ops = append(ops, "R3:t")
	}
	recs := []string{"E2:" + hx([]byte(fname)) + ":0"}
	if r.coin(3, 4) {
		recs = append(recs, "E3:"+hx([]byte(dname))+":2")
	}
	if r.coin(1, 2) {
		recs = append(recs, "E3:"+hx([]byte(dname+fname))+":1")
	}
	if r.coin(3, 4) {
		recs = append(recs, "C4:3")
	}
	if r.coin(1, 2) {
		r.shuffle(len(recs), func(i, j int) { recs[i], recs[j] = recs[j], recs[i] })
	}
	ops = append(ops, recs...)
	ops = append(ops, "N"+hxs(name)+":"+strconv.Itoa(target))
	return []string{encRepo(objs), joinOrDash(atoms, ","), joinOrDash(names, ","), joinOrDash(ops, ",")}
}

// a blob at the bottom of a chain of 30-60 nested directories: the description of a deeply nested object
// must be built in time proportional to its depth (seeded change C05tz doubled the work per level)
func genPathsDeepChain(r *rng) []string {
	depth := 30 + r.n(31)
	objs := []gObj{{kind: 'b', size: 7}}
	objs = append(objs, gObj{kind: 't', entries: []gEntry{{0o100644, []byte("leaf"), 0}}})
	for d := 0; d < depth; d++ {
		objs = append(objs, gObj{kind: 't', entries: []gEntry{{0o40000, []byte(fmt.Sprintf("d%d", d%3)), len(objs) - 1}}})
	}
	top := len(objs) - 1
	objs = append(objs, gObj{kind: 'c', tree: top, pad: 3})
	c := len(objs) - 1
	name := "refs/heads/deep"
	atoms := []string{hxs(name) + "=" + strconv.Itoa(c)}
	names := []string{hxs(name) + "=" + strconv.Itoa(c)}
	ops := []string{"R0:b", "R1:t"}
	var recs []string
	recs = append(recs, "E1:"+hx([]byte("leaf"))+":0")
	for t := 2; t <= top; t++ {
		recs = append(recs, fmt.Sprintf("E%d:%s:%d", t, hx(objs[t].entries[0].name), t-1))
	}
	recs = append(recs, fmt.Sprintf("C%d:%d", c, top))
	if r.coin(1, 2) { // parents first, as the scan delivers them when subtrees are already known
		for i, j := 0, len(recs)-1; i < j; i, j = i+1, j-1 {
			recs[i], recs[j] = recs[j], recs[i]
		}
	}
	ops = append(ops, recs...)
	ops = append(ops, "N"+hxs(name)+":"+strconv.Itoa(c))
	return []string{encRepo(objs), joinOrDash(atoms, ","), joinOrDash(names, ","), joinOrDash(ops, ",")}
}

func genPathsCase(r *rng, tier string) []string {
	if r.coin(1, 40) {
		return genPathsDeepChain(r)
	}
	if r.coin(1, 5) {
		return genPathsScenario(r)
	}
	objs, _ := genE2ERepo(r, tier)
	// nasty but storable entry names; some gitlinks that point at commits of this repository
	for i := range objs {
		if objs[i].kind != 't' {
			continue
		}
		used := map[string]bool{}
		for j := range objs[i].entries {
			e := &objs[i].entries[j]
			if r.coin(1, 3) {
				e.name = []byte(pathsEntryNames[r.n(len(pathsEntryNames))])
			}
			if e.mode&0o170000 == 0o40000 && r.coin(1, 3) { // a directory whose own name contains or ends with ':'
				e.name = []byte([]string{"trail:", "co:lon", ":lead", "a:", "x:y:"}[r.n(5)])
			}
			for used[string(e.name)] {
				e.name = append(e.name, 'x')
			}
			used[string(e.name)] = true
			if e.mode&0o170000 == 0o160000 && r.coin(1, 2) {
				var cs []int
				for k := 0; k < i; k++ {
					if objs[k].kind == 'c' {
						cs = append(cs, k)
					}
				}
				if len(cs) > 0 {
					e.oid = cs[r.n(len(cs))]
				}
			}
		}
	}
	// a superproject commit whose tree links to commits stored in this very repository
	if cs := indicesOf(objs, 'c'); len(cs) > 0 && r.coin(1, 3) {
		var es []gEntry
		for k := 0; k < 1+r.n(2); k++ {
			es = append(es, gEntry{0o160000, []byte(fmt.Sprintf("sub%d", k)), cs[r.n(len(cs))]})
		}
		if ts := indicesOf(objs, 't'); len(ts) > 0 {
			es = append(es, gEntry{0o40000, []byte("vendor"), ts[r.n(len(ts))]})
		}
		objs = append(objs, gObj{kind: 't', entries: es})
		objs = append(objs, gObj{kind: 'c', tree: len(objs) - 1, pad: r.n(40)})
	}
	// root names: atom = what git resolves by itself; a name may extend an atom structurally
	var atoms, names []string // "hexname=idx"
	usedAtom := map[string]bool{}
	nRoots := 1 + r.n(5)
	for k := 0; k < nRoots; k++ {
		a := pathsAtomNames[r.n(len(pathsAtomNames))]
		if usedAtom[a] {
			continue
		}
		usedAtom[a] = true
		o := r.n(len(objs))
		atoms = append(atoms, hxs(a)+"="+strconv.Itoa(o))
		name, target := a, o
		if t := peelToTree(objs, o); t >= 0 && objs[o].kind != 't' && r.coin(1, 2) {
			form := r.n(5)
			if pathsOpenBrace(a) {
				form = 0 // git does not see a ':' after an unclosed '{': such a ROOT would not resolve
			}
			switch form {
			case 0:
				name, target = a+"^{tree}", t
			case 1:
				name, target = a+":", t
			default: // a path into the tree, possibly down to a blob or a gitlink
				cur := t
				var comps []string
				for d := 0; d < 1+r.n(3); d++ {
					if objs[cur].kind != 't' || len(objs[cur].entries) == 0 {
						break
					}
					ei := r.n(len(objs[cur].entries))
					for k2, e2 := range objs[cur].entries { // prefer subtrees: roots of the form <rev>:<dir>
						if e2.mode&0o170000 == 0o40000 && r.coin(1, 2) {
							ei = k2
						}
					}
					e := objs[cur].entries[ei]
					for _, e2 := range objs[cur].entries { // prefer a submodule link to a commit stored here
						if e2.mode&0o170000 == 0o160000 && e2.oid >= 0 && r.coin(1, 2) {
							e = e2
						}
					}
					if e.oid < 0 {
						break
					}
					comps = append(comps, string(e.name))
					cur = e.oid
				}
				if len(comps) > 0 {
					name, target = a+":"+strings.Join(comps, "/"), cur
					if objs[cur].kind == 't' && r.coin(1, 4) {
						name += "/"
					}
				}
			}
		} else if objs[o].kind == 'g' && r.coin(1, 3) {
			// peel an annotated tag to what it finally points at
			t := o
			for objs[t].kind == 'g' {
				t = objs[t].ref
			}
			name, target = a+"^{"+kindName[objs[t].kind]+"}", t
		}
		names = append(names, hxs(name)+"="+strconv.Itoa(target))
	}
	// operations
	var reqs []string
	nReq := 1 + r.n(6)
	for k := 0; k < nReq; k++ {
		o := r.n(len(objs))
		if len(names) > 0 && r.coin(1, 2) {
			// an object below a named root: the root's tree, or something further down
			kv := strings.SplitN(names[r.n(len(names))], "=", 2)
			root, _ := strconv.Atoi(kv[1])
			for _, nm := range names { // prefer a commit that is named through a path (a submodule link)
				kv2 := strings.SplitN(nm, "=", 2)
				if c, _ := strconv.Atoi(kv2[1]); objs[c].kind == 'c' && strings.Contains(string(unhx(kv2[0])), ":") && r.coin(1, 2) {
					root = c
				}
			}
			if t := peelToTree(objs, root); t >= 0 {
				o = t
				for d := r.n(3); d > 0 && objs[o].kind == 't' && len(objs[o].entries) > 0; d-- {
					e := objs[o].entries[r.n(len(objs[o].entries))]
					if e.oid < 0 || e.mode&0o170000 == 0o160000 {
						break
					}
					o = e.oid
				}
			}
		}
		reqs = append(reqs, fmt.Sprintf("R%d:%c", o, objs[o].kind))
	}
	var recs []string
	order := r.n(3) // 0: trees ascending (children first), 1: descending, 2: shuffled
	var trees []int
	for i, o := range objs {
		if o.kind == 't' {
			trees = append(trees, i)
		}
	}
	if order == 1 {
		for i, j := 0, len(trees)-1; i < j; i, j = i+1, j-1 {
			trees[i], trees[j] = trees[j], trees[i]
		}
	} else if order == 2 {
		r.shuffle(len(trees), func(i, j int) { trees[i], trees[j] = trees[j], trees[i] })
	}
	for _, t := range trees {
		for _, e := range objs[t].entries {
			if e.mode&0o170000 == 0o160000 {
				continue // submodule links are not reported to the resolver
			}
			if e.mode&0o170000 == 0o40000 && r.coin(1, 4) {
				continue // a subtree that was already known is not reported either
			}
			recs = append(recs, fmt.Sprintf("E%d:%s:%d", t, hx(e.name), e.oid))
		}
	}
	for i := len(objs) - 1; i >= 0; i-- {
		if objs[i].kind == 'c' && !r.coin(1, 6) {
			recs = append(recs, fmt.Sprintf("C%d:%d", i, objs[i].tree))
		}
	}
	for _, nm := range names {
		kv := strings.SplitN(nm, "=", 2)
		recs = append(recs, "N"+kv[0]+":"+kv[1])
	}
	// interleave: requests mostly first (as the contract asks), sometimes anywhere; forgets later
	var ops []string
	if r.coin(2, 3) {
		ops = append(append(ops, reqs...), recs...)
	} else {
		ops = append(ops, recs...)
		for _, q := range reqs {
			p := r.n(len(ops) + 1)
			ops = append(ops[:p], append([]string{q}, ops[p:]...)...)
		}
	}
	nf := r.n(nReq)
	forgot := map[int]bool{}
	for k := 0; k < nf; k++ {
		h := r.n(nReq)
		if forgot[h] && !r.coin(1, 20) { // forgetting a path twice is a caller error (panics): rare
			continue
		}
		forgot[h] = true
		// a forget is placed after its request
		pos := 0
		cnt := -1
		for i, op := range ops {
			if op[0] == 'R' {
				cnt++
				if cnt == h {
					pos = i + 1
				}
			}
		}
		p := pos + r.n(len(ops)-pos+1)
		ops = append(ops[:p], append([]string{fmt.Sprintf("F%d", h)}, ops[p:]...)...)
	}
	return []string{encRepo(realSizesOrZero(objs)), joinOrDash(atoms, ","), joinOrDash(names, ","), joinOrDash(ops, ",")}
}

func realSizesOrZero(objs []gObj) []gObj { return objs }

func init() {
	register(&engine{
		name: "paths",
		gen:  func(r *rng, i int, tier string) []string { return genPathsCase(r, tier) },
		exec: func(in []string) []string {
			pr := sizes.NewPathResolver(sizes.NameStyleFull)
			var handles []*sizes.Path
			forgotten := map[int]int{}
			typ := map[byte]string{'b': "blob", 't': "tree", 'c': "commit", 'g': "tag"}
			for _, op := range splitOrNil(in[3], ",") {
				f := strings.Split(op[1:], ":")
				switch op[0] {
				case 'R':
					o, _ := strconv.Atoi(f[0])
					handles = append(handles, pr.RequestPath(pathsOID(o), typ[f[1][0]]))
				case 'F':
					h, _ := strconv.Atoi(f[0])
					if h < len(handles) {
						pr.ForgetPath(handles[h])
						forgotten[h]++
					}
				case 'N':
					o, _ := strconv.Atoi(f[1])
					pr.RecordName(string(unhx(f[0])), pathsOID(o))
				case 'E':
					t, _ := strconv.Atoi(f[0])
					c, _ := strconv.Atoi(f[2])
					pr.RecordTreeEntry(pathsOID(t), string(unhx(f[1])), pathsOID(c))
				case 'C':
					c, _ := strconv.Atoi(f[0])
					t, _ := strconv.Atoi(f[1])
					pr.RecordCommit(pathsOID(c), pathsOID(t))
				}
			}
			var out []string
			for h, p := range handles {
				if forgotten[h] > 0 {
					continue
				}
				out = append(out, fmt.Sprintf("%d=%s", h, hxs(p.String())))
			}
			return []string{joinOrDash(out, ",")}
		},
		class: func(in, res []string) string {
			if len(res) > 0 && res[0] == "panic" {
				return "panic"
			}
			n := strings.Count(res[0], "2028") // " (" : a description was printed
			switch {
			case n == 0:
				return "oid-only"
			case n < 3:
				return "described-1-2"
			default:
				return "described-3+"
			}
		},
	})
}

// Engine `revspec`: the specification of git's revision syntax (Spec/RevParse) against the real
// `git rev-parse --verify` on generated repositories and expressions of the fragment.
func genRevExpr(r *rng, objs []gObj, refs []string) string {
	var segs []string
	lit := func(s string) { segs = append(segs, "r"+hxs(s)) }
	cur := -1
	if len(refs) > 0 && r.coin(2, 3) {
		kv := strings.SplitN(refs[r.n(len(refs))], "=", 2)
		lit(kv[0])
		cur, _ = strconv.Atoi(kv[1])
	} else {
		cur = r.n(len(objs))
		segs = append(segs, "o"+strconv.Itoa(cur))
	}
	nmod := r.n(3)
	colon := false
	for m := 0; m < nmod; m++ {
		switch k := r.n(6); {
		case k < 2:
			lit("^{" + []string{"tree", "commit", "blob", "tag", "tree", "commit", "", "object", "tre", "trees"}[r.n(10)] + "}")
		default:
			// a path: valid walk, possibly spoiled
			t := -1
			if cur >= 0 {
				t = peelToTree(objs, cur)
			}
			var comps []string
			c := t
			for d := r.n(4); d > 0 && c >= 0 && objs[c].kind == 't' && len(objs[c].entries) > 0; d-- {
				e := objs[c].entries[r.n(len(objs[c].entries))]
				comps = append(comps, string(e.name))
				c = e.oid
				if e.mode&0o170000 == 0o160000 {
					break
				}
			}
			p := strings.Join(comps, "/")
			switch r.n(8) {
			case 0:
				p += "/"
			case 1:
				p = strings.Replace(p, "/", "//", 1)
			case 2:
				p += "/nosuch"
			case 3:
				p = "/" + p
			}
			if colon && r.coin(1, 2) {
				lit("/" + p)
			} else {
				lit(":" + p)
			}
			colon = true
			cur = -1
		}
	}
	return strings.Join(segs, "+")
}

func init() {
	register(&engine{
		name: "revspec",
		gen: func(r *rng, i int, tier string) []string {
			var objs []gObj
			var times []int64
			for try := 0; try < 5; try++ {
				objs, times = genE2ERepo(r, tier)
				for i := range objs {
					if objs[i].kind == 't' {
						used := map[string]bool{}
						for j := range objs[i].entries {
							e := &objs[i].entries[j]
							if r.coin(1, 4) {
								e.name = []byte([]string{"co:lon", "br{ace", "br}ace", "t^{tree}", "{}", "at@{1}", ":lead", "trail:", "ca^ret"}[r.n(9)])
							}
							for used[string(e.name)] {
								e.name = append(e.name, 'x')
							}
							used[string(e.name)] = true
						}
					}
				}
				if cs := indicesOf(objs, 'c'); len(cs) > 0 && r.coin(1, 2) {
					es := []gEntry{{0o160000, []byte("sub"), cs[r.n(len(cs))]}}
					if ts := indicesOf(objs, 't'); len(ts) > 0 {
						es = append(es, gEntry{0o40000, []byte("vendor"), ts[r.n(len(ts))]})
					}
					objs = append(objs, gObj{kind: 't', entries: es})
					times = append(times, 1700000000)
					objs = append(objs, gObj{kind: 'c', tree: len(objs) - 1, pad: r.n(40)})
					times = append(times, 1700000001)
				}
				if !hasDuplicateObjects(objs, times) {
					break
				}
			}
			objs = realSizes(objs, times)
			var refs []string
			for _, rf := range genE2ERefs(r, objs) {
				if !strings.Contains(rf, "@") { // symbolic references and the long-name marker: not part of this engine's fragment
					refs = append(refs, rf)
				}
			}
			for _, nm := range []string{"refs/heads/a{b", "refs/heads/c}d", "refs/heads/e{f}g", "refs/tags/}{"} {
				dup := false
				for _, rf := range refs {
					if strings.HasPrefix(rf, nm+"=") {
						dup = true
					}
				}
				if !dup && r.coin(1, 3) {
					refs = append(refs, nm+"="+strconv.Itoa(r.n(len(objs))))
				}
			}
			var exprs []string
			for k := 0; k < 8; k++ {
				exprs = append(exprs, genRevExpr(r, objs, refs))
			}
			return []string{encRepo(objs), timesJoin(times), joinOrDash(refs, ","), strings.Join(exprs, ",")}
		},
		exec: func(in []string) []string {
			objs := decRepo(in[0])
			times := timesSplit(in[1])
			refs := splitOrNil(in[2], ",")
			if hasDuplicateObjects(objs, times) {
				return []string{"dup"}
			}
			rr, err := buildRepoKind(objs, times, refs, true)
			if err != nil {
				return []string{"setup-failed", hxs(err.Error())}
			}
			defer rr.cleanup()
			var out []string
			for _, ex := range strings.Split(in[3], ",") {
				var b strings.Builder
				for _, sg := range strings.Split(ex, "+") {
					if sg[0] == 'o' {
						i, _ := strconv.Atoi(sg[1:])
						b.WriteString(rr.oids[i])
					} else {
						b.Write(unhx(sg[1:]))
					}
				}
				o, _, code := runCmd(rr.dir, gitEnv("GIT_DIR="+rr.dir), nil, "git", "rev-parse", "--verify", "--end-of-options", b.String())
				res := "-"
				if code == 0 {
					oid := strings.TrimSpace(string(o))
					if idx := rr.indexOf(oid); idx >= 0 {
						res = strconv.Itoa(idx)
					} else {
						res = "o"
					}
				}
				out = append(out, res)
			}
			return []string{"ran", strings.Join(out, ",")}
		},
		class: func(in, res []string) string { return res[0] },
	})
}
