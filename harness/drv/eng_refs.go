//go:build verif

package main

import (
	"fmt"
	"regexp"
	"sort"
	"strings"

	"github.com/spf13/pflag"

	"github.com/github/git-sizer/git"
	"github.com/github/git-sizer/internal/refopts"
	"github.com/github/git-sizer/sizes"
)

// fakeConfigger serves GetConfig from an in-memory entry list, using the real prefix matcher.
type fakeConfigger struct{ entries []cfgEntry }

func (c fakeConfigger) GetConfig(prefix string) (*git.Config, error) {
	cfg := &git.Config{Prefix: prefix}
	for _, e := range c.entries {
		ok, rest := git.VerifConfigKeyMatchesPrefix(e.key, prefix)
		if ok {
			cfg.Entries = append(cfg.Entries, git.ConfigEntry{Key: rest, Value: e.value})
		}
	}
	return cfg, nil
}

var refPool = []string{
	"refs/heads/master", "refs/heads/foo", "refs/heads/foo/bar", "refs/heads/foobar", "refs/headstrong", "refs/heads",
	"refs/tags/v1", "refs/tags/release-1.2.3", "refs/tags/release-1.22.333rc1", "refs/tags",
	"refs/remotes/origin/master", "refs/remotes/upstream/x", "refs/pull/1/head", "refs/pull/22/merge",
	"refs/changes/12/3412/1", "refs/changes/1/2/3", "refs/changes/12/3412/1/x", "refs/notes/commits",
	"refs/stash", "refs/stash/x", "refs/stashed", "refs/foo", "refs/foobar", "refs/foo/bar", "refs/other/x", "refs/heads/a", "refs/heads/abc", "refs/tags/b", "refs/tags/bcd",
}

var rePool = []string{
	`refs/heads/.*`, `refs/heads/a|refs/tags/b`, `.*`, `refs/(heads|tags)/.*`, `refs/tags/release-\d+\.\d+\.\d+`,
	`refs/heads/foo|refs/foob`, `^refs/heads/master$`, `refs/heads/foo(/.*)?`, `refs/[^/]+/[^/]+`, `.*/master`, `refs/heads/`,
	`a|`, `|refs/stash`, `(`, `[`, `refs/stash`, `refs/heads/(a|abc)`, `(?i)REFS/HEADS/.*`, `refs/tags/b|refs/tags/bc.`, ``,
}

var validRePool = []string{
	`refs/heads/.*`, `refs/heads/a|refs/tags/b`, `.*`, `refs/(heads|tags)/.*`, `refs/tags/release-\d+\.\d+\.\d+`,
	`refs/heads/foo|refs/foob`, `^refs/heads/master$`, `refs/heads/foo(/.*)?`, `refs/[^/]+/[^/]+`, `.*/master`, `refs/heads/`,
	`a|`, `|refs/stash`, `refs/stash`, `refs/heads/(a|abc)`, `(?i)REFS/HEADS/.*`, `refs/tags/b|refs/tags/bc.`, ``,
}

var validSymPool = []string{"remotes.origin/releases", "misc.foo/all", "branches.team/a", "ci,bots", "ci", "bots", "tags.rel.rc", "branches.team.alice", "mine.topic.wip", "mine", "a.b", "a.c", "a.b.d", "tags.releases", "tags", "branches.mine", "other", "ignored", "a.other", "x.y.z.w", ".lead", "trail.", "do..ts", "UP", "e.f", "deep.1.2.3.4.5.6.7.8.9.10.11.12.13.14"}

var symPool = []string{"remotes.origin/releases", "misc.foo/all", "branches.team/a", "ci,bots", "ci", "bots", "tags.rel.rc", "branches.team.alice", "mine.topic.wip", "mine", "a", "a.b", "a.c", "a.b.d", "tags.releases", "tags", "branches.mine", "other", "ignored", "a.other", "x.y.z.w", ".lead", "trail.", "do..ts", "UP", "undefinedgrp", "e.f", "deep.1.2.3.4.5.6.7.8.9.10.11.12.13.14"}

func genPrefix(r *rng) string {
	s := refPool[r.n(len(refPool))]
	switch r.n(5) {
	case 0:
		return s[:r.n(len(s)+1)]
	case 1:
		return s + "/"
	case 2:
		i := strings.LastIndexByte(s, '/')
		return s[:i]
	case 3:
		i := strings.LastIndexByte(s, '/')
		return s[:i+1]
	default:
		return s
	}
}

func genRefsCase(r *rng) (cfg []cfgEntry, opts []string, hasRoots bool, refs []string) {
	// five cases out of six avoid the error branches (invalid regexps, undefined groups, bad booleans)
	valid := r.coin(5, 6)
	commaFamily := false
	rePool := rePool
	symPool := symPool
	if valid {
		rePool = validRePool
		symPool = validSymPool
	}
	defined := map[string]bool{"branches": true, "tags": true, "remotes": true, "pulls": true, "changes": true, "notes": true, "stash": true}
	// config
	ng := r.n(6)
	for g := 0; g < ng; g++ {
		sym := symPool[r.n(len(symPool))]
		defined[sym] = true
		ne := 1 + r.n(3)
		for j := 0; j < ne; j++ {
			var e cfgEntry
			e.hasValue = true
			switch r.n(9) {
			case 0:
				e.key, e.value = "refgroup."+sym+".name", []string{"My Group", "", "x|y [9]"}[r.n(3)]
			case 1, 2, 3:
				e.key, e.value = "refgroup."+sym+".include", genPrefix(r)
			case 4:
				e.key, e.value = "refgroup."+sym+".exclude", genPrefix(r)
			case 5, 6:
				e.key, e.value = "refgroup."+sym+".includeregexp", rePool[r.n(len(rePool))]
			case 7:
				e.key, e.value = "refgroup."+sym+".excluderegexp", rePool[r.n(len(rePool))]
			default:
				e.key, e.value = "refgroup."+sym+".bogus", "x"
			}
			if valid && j == 0 && (strings.HasSuffix(e.key, ".name") || strings.HasSuffix(e.key, ".bogus")) {
				// make sure the group gets at least one rule
				e.key, e.value = "refgroup."+sym+".include", genPrefix(r)
			}
			if sym == "undefinedgrp" {
				e.key, e.value = "refgroup."+sym+".name", "Undefined"
			}
			cfg = append(cfg, e)
		}
	}
	if r.coin(1, 6) {
		cfg = append(cfg, cfgEntry{key: "core.bare", value: "true", hasValue: true})
	}
	if valid && r.coin(1, 30) {
		// a symbol that contains a comma next to the two symbols it seems to list: the reference in `ci` AND `bots`
		// and the one in `ci,bots` have different symbol lists (seeded change C07m interned lists by their joined text)
		cfg = append(cfg,
			cfgEntry{key: "refgroup.ci.include", value: "refs/heads/foo", hasValue: true},
			cfgEntry{key: "refgroup.ci.include", value: "refs/heads/abc", hasValue: true},
			cfgEntry{key: "refgroup.bots.include", value: "refs/remotes", hasValue: true},
			cfgEntry{key: "refgroup.bots.include", value: "refs/heads/abc", hasValue: true},
			cfgEntry{key: "refgroup.ci,bots.include", value: "refs/heads/master", hasValue: true})
		defined["ci"], defined["bots"], defined["ci,bots"] = true, true, true
		commaFamily = true
	}
	// the same entry again later (git lists an entry once per scope and per occurrence), possibly with
	// an entry of the opposite polarity or another name in between: order and repetition matter
	if len(cfg) > 0 && r.coin(1, 3) {
		e := cfg[r.n(len(cfg))]
		if strings.HasPrefix(e.key, "refgroup.") {
			if r.coin(1, 2) {
				mid := e
				switch {
				case strings.HasSuffix(e.key, ".include"):
					mid.key = strings.TrimSuffix(e.key, ".include") + ".exclude"
				case strings.HasSuffix(e.key, ".exclude"):
					mid.key = strings.TrimSuffix(e.key, ".exclude") + ".include"
				case strings.HasSuffix(e.key, ".name"):
					mid.value = "Other Name"
				}
				cfg = append(cfg, mid)
			}
			cfg = append(cfg, e)
		}
	}
	// options
	no := r.n(5)
	if r.coin(1, 5) {
		no = 0
	}
	for j := 0; j < no; j++ {
		switch r.n(12) {
		case 0, 1:
			opts = append(opts, "include="+hxs(genPrefix(r)))
		case 2, 3:
			opts = append(opts, "exclude="+hxs(genPrefix(r)))
		case 4:
			opts = append(opts, []string{"include", "exclude"}[r.n(2)]+"="+hxs("/"+rePool[r.n(len(rePool))]+"/"))
		case 5:
			opts = append(opts, []string{"include-regexp", "exclude-regexp"}[r.n(2)]+"="+hxs(rePool[r.n(len(rePool))]))
		case 6:
			cands := []string{"branches", "tags", "remotes", "pulls", "changes", "notes", "stash", "mine", "a", "a.b", "undefinedx", "", "other"}
			// the groups this very configuration defines, however deeply nested (a group three levels down whose
			// middle level is implicit must still be confined by its outermost ancestor: seeded change C06n)
			var own []string
			for sym := range defined {
				if strings.Contains(sym, ".") {
					own = append(own, sym)
				}
			}
			sort.Strings(own)
			cands = append(cands, own...)
			cands = append(cands, own...)
			g := cands[r.n(len(cands))]
			if valid && !defined[g] {
				g = "tags"
			}
			opts = append(opts, []string{"include", "exclude"}[r.n(2)]+"="+hxs("@"+g))
		case 7:
			g := []string{"branches", "tags", "mine", "a", "a.b", "nosuch", ""}[r.n(7)]
			if valid && !defined[g] {
				g = "branches"
			}
			opts = append(opts, "refgroup="+hxs(g))
		default:
			f := []string{"branches", "no-branches", "tags", "no-tags", "remotes", "no-remotes", "notes", "no-notes", "stash", "no-stash"}[r.n(10)]
			switch r.n(8) {
			case 0:
				opts = append(opts, f+"="+hxs("false"))
			case 1:
				vals := []string{"true", "1", "F", "junk", ""}
				if valid {
					vals = vals[:3]
				}
				opts = append(opts, f+"="+hxs(vals[r.n(len(vals))]))
			default:
				opts = append(opts, f)
			}
		}
	}
	hasRoots = r.coin(1, 3)
	nr := 3 + r.n(8)
	seen := map[string]bool{}
	if commaFamily {
		seen["refs/heads/abc"], seen["refs/heads/master"] = true, true
		refs = append(refs, "refs/heads/abc", "refs/heads/master")
	}
	for j := 0; j < nr; j++ {
		s := refPool[r.n(len(refPool))]
		if r.coin(1, 10) {
			s = "refs/" + strings.ReplaceAll(string(randHeaderValue(r)), " ", "-")
		}
		if !seen[s] {
			seen[s] = true
			refs = append(refs, s)
		}
	}
	sort.Strings(refs)
	return
}

// regexOracle: per pattern, validity of ^p$ and, per ref, whether ^(?:p)$ (full match) and ^p$
// (the naive anchoring) match. Computed with Go's regexp directly, independent of git-sizer.
func regexOracle(patterns []string, refs []string) string {
	var parts []string
	for _, p := range patterns {
		naive, err1 := regexp.Compile("^" + p + "$")
		full, err2 := regexp.Compile("^(?:" + p + ")$")
		okN, okF := "1", "1"
		if err1 != nil {
			okN = "0"
		}
		if err2 != nil {
			okF = "0"
		}
		var bits strings.Builder
		for _, ref := range refs {
			b := 0
			if err2 == nil && full.MatchString(ref) {
				b |= 1
			}
			if err1 == nil && naive.MatchString(ref) {
				b |= 2
			}
			bits.WriteByte(byte('0' + b))
		}
		parts = append(parts, hxs(p)+":"+okF+okN+":"+bits.String())
	}
	if len(parts) == 0 {
		return "-"
	}
	return strings.Join(parts, ",")
}

func collectPatterns(cfg []cfgEntry, opts []string) []string {
	set := map[string]bool{`refs/changes/\d{2}/\d+/\d+`: true, `refs/stash`: true}
	for _, e := range cfg {
		if strings.HasSuffix(e.key, "regexp") {
			set[e.value] = true
		}
	}
	for _, o := range opts {
		kv := strings.SplitN(o, "=", 2)
		if len(kv) != 2 {
			continue
		}
		v := string(unhx(kv[1]))
		if strings.HasSuffix(kv[0], "-regexp") {
			set[v] = true
		}
		if len(v) >= 2 && strings.HasPrefix(v, "/") && strings.HasSuffix(v, "/") {
			set[v[1:len(v)-1]] = true
		}
	}
	var ps []string
	for p := range set {
		ps = append(ps, p)
	}
	sort.Strings(ps)
	return ps
}

func encCfgEntries(cfg []cfgEntry) string {
	if len(cfg) == 0 {
		return "-"
	}
	var parts []string
	for _, e := range cfg {
		parts = append(parts, hxs(e.key)+":"+hxs(e.value))
	}
	return strings.Join(parts, ",")
}

func decCfgEntries(s string) []cfgEntry {
	if s == "-" || s == "" {
		return nil
	}
	var es []cfgEntry
	for _, p := range strings.Split(s, ",") {
		kv := strings.SplitN(p, ":", 2)
		es = append(es, cfgEntry{key: string(unhx(kv[0])), value: string(unhx(kv[1])), hasValue: true})
	}
	return es
}

func joinOrDash(xs []string, sep string) string {
	if len(xs) == 0 {
		return "-"
	}
	return strings.Join(xs, sep)
}

func splitOrNil(s, sep string) []string {
	if s == "-" || s == "" {
		return nil
	}
	return strings.Split(s, sep)
}

// buildArgv turns the abstract option list into a command line, choosing among equivalent
// spellings (`--flag=value` / `--flag value`) from `spell`.
func buildArgv(opts []string, spell uint64) []string {
	var argv []string
	for i, o := range opts {
		kv := strings.SplitN(o, "=", 2)
		if len(kv) == 1 {
			argv = append(argv, "--"+kv[0])
			continue
		}
		v := string(unhx(kv[1]))
		takesArg := kv[0] == "include" || kv[0] == "exclude" || kv[0] == "include-regexp" || kv[0] == "exclude-regexp" || kv[0] == "refgroup"
		if takesArg && (spell>>uint(i%60))&1 == 1 {
			argv = append(argv, "--"+kv[0], v)
		} else {
			argv = append(argv, "--"+kv[0]+"="+v)
		}
	}
	return argv
}

type refsResult struct {
	err    bool
	groups []sizes.RefGroup
	walk   []bool
	syms   [][]sizes.RefGroupSymbol
	rg     sizes.RefGrouper
}

func runRefs(cfg []cfgEntry, opts []string, spell uint64, hasRoots bool, refs []string) refsResult {
	rgb, err := refopts.NewRefGroupBuilder(fakeConfigger{cfg})
	if err != nil {
		return refsResult{err: true}
	}
	flags := pflag.NewFlagSet("git-sizer", pflag.ContinueOnError)
	flags.SetOutput(discard{})
	rgb.AddRefopts(flags)
	flags.SortFlags = false
	argv := buildArgv(opts, spell)
	if hasRoots {
		argv = append(argv, "ROOT")
	}
	if err := flags.Parse(argv); err != nil {
		return refsResult{err: true}
	}
	rg, err := rgb.Finish(len(flags.Args()) == 0)
	if err != nil {
		return refsResult{err: true}
	}
	res := refsResult{rg: rg}
	for _, ref := range refs {
		w, ss := rg.Categorize(ref)
		res.walk = append(res.walk, w)
		res.syms = append(res.syms, ss)
	}
	res.groups = rg.Groups()
	return res
}

type discard struct{}

func (discard) Write(p []byte) (int, error) { return len(p), nil }

func init() {
	register(&engine{
		name: "refs",
		gen: func(r *rng, i int, tier string) []string {
			cfg, opts, hasRoots, refs := genRefsCase(r)
			var rh []string
			for _, ref := range refs {
				rh = append(rh, hxs(ref))
			}
			return []string{encCfgEntries(cfg), joinOrDash(opts, ","), u(r.u64() >> 4), boolStr(hasRoots), joinOrDash(rh, ","),
				regexOracle(collectPatterns(cfg, opts), refs)}
		},
		exec: func(in []string) []string {
			cfg := decCfgEntries(in[0])
			opts := splitOrNil(in[1], ",")
			var refs []string
			for _, h := range splitOrNil(in[4], ",") {
				refs = append(refs, string(unhx(h)))
			}
			res := runRefs(cfg, opts, atou(in[2]), in[3] == "1", refs)
			if res.err {
				return []string{"err"}
			}
			var gs []string
			for _, g := range res.groups {
				gs = append(gs, hxs(string(g.Symbol))+":"+hxs(g.Name))
			}
			var cats []string
			for i := range refs {
				var ss []string
				for _, s := range res.syms[i] {
					ss = append(ss, hxs(string(s)))
				}
				cats = append(cats, fmt.Sprintf("%s:%s", boolStr(res.walk[i]), joinOrDash(ss, "/")))
			}
			return []string{"ok", joinOrDash(gs, ","), joinOrDash(cats, ",")}
		},
		class: func(in, res []string) string {
			n := 0
			if in[1] != "-" {
				n = len(strings.Split(in[1], ","))
			}
			return fmt.Sprintf("%s/opts=%d/roots=%s", res[0], n, in[3])
		},
	})
}

// ------------------------------------------------------------ regex (C06)
// The real git.RegexpFilter against the Lean definition of "matches the entire reference name"
// (Spec/Regex.FullMatch, decided by Model/Regex.matchB, proved in Proofs/Regex). Go's regexp is the
// implementation here, not the oracle; its answers (full and naive anchoring) are passed along so that the
// oracle bits used by the `refs` engine are themselves checked against the Lean matcher.

var regexEdgePool = []string{
	`^*`, `$*x`, `(|a)*b`, `()`, `(?:)`, `a||b`, `[a-]`, `[-a]`, `[a\-z]+`, `[\d-z]+`, `x{`, `x{a}`, `x{1`, `x{,2}`, `}`, `]`, `\/`, `\_`,
	`a{2}`, `a{2,}`, `a{2,3}`, `a{3,2}`, `a{1001}`, `(a{2}){3}`, `a{2}{3}`, `a{2}*`, `a*{2}`, `a*?`, `a+?`, `a??`, `a*??`, `a{2}?`, `a{0}`, `a{0,0}b`, `(ab){1,2}`,
	`\D+`, `\W`, `\S*`, `[^\d]`, `[\D]`, `[[:alpha:]]`, `\pL`, `\bfoo`, `\Afoo\z`, `(?i)refs/HEADS/.*`, `(?i)[a-c]+`, `(?i)[^a-c]+`, `(?i)[X-b]`, `(?s).`, `(?i:a)`, `(?P<x>a)`,
	`.`, `[^a]`, `a.b`, `\.`, `refs/heads/^x`, `a$b`, `(^a|b$)*`, `(a|ab)(c|bcd)`, `(a*)*`, `(a*)+b`, `x*`, `[a-c-e]+`, `[a-c\]]`, `[]a]`, `[^]a]`, `[a`, `a)`, `(a`, `\`, `a\`, `*a`, `+`, `?`, `|`, `a|b|`,
	`(?i)É`, `é`, `[é]`, `a|^`, `($|a)b`, `(a|$)`, `^^a$$`, `a^`, `$a`, `(^)*a`, `(a?)*b`, `((a|b)*c)*`, `[a-a]`, `[b-a]`, `[\w-]`, `[a-\d]`, `[+--]`, `[--/]`, `\-`, `a{,}`, `a{1,2,3}`, `{`, `{1}`, `a|{1}`, `(?:{2})`, `(*)`, `(|)`, `[^\n]`, `\n`, `\t`,
}

func genRegexComponent(r *rng, comp string) string {
	q := regexp.QuoteMeta(comp)
	switch r.n(14) {
	case 0:
		return `[^/]+`
	case 1:
		return `[^/]*`
	case 2:
		return `.*`
	case 3:
		return `(` + q + `|` + []string{"foo", "master", "x", "v1", ""}[r.n(5)] + `)`
	case 4:
		if len(comp) > 1 {
			return regexp.QuoteMeta(comp[:len(comp)-1]) + regexp.QuoteMeta(comp[len(comp)-1:]) + `?`
		}
		return q + `?`
	case 5:
		return `[a-m]+`
	case 6:
		return `\w+`
	case 7:
		return `[\w.-]*`
	case 8:
		if len(comp) > 2 {
			k := 1 + r.n(len(comp)-1)
			return regexp.QuoteMeta(comp[:k]) + `.*`
		}
		return q
	case 9:
		return q + `(/.*)?`
	case 10:
		return `(?:` + q + `)+`
	case 11:
		return `\d{1,3}`
	default:
		return q
	}
}

func genRegex(r *rng, depth int) string {
	name := refPool[r.n(len(refPool))]
	comps := strings.Split(name, "/")
	var out []string
	for i, c := range comps {
		if i == 0 && r.n(4) != 0 {
			out = append(out, c)
			continue
		}
		out = append(out, genRegexComponent(r, c))
	}
	if r.coin(1, 4) {
		out = out[:1+r.n(len(out))]
	}
	p := strings.Join(out, "/")
	switch r.n(10) {
	case 0:
		p = "^" + p
	case 1:
		p = p + "$"
	case 2:
		p = "^" + p + "$"
	case 3:
		p = "(?i)" + strings.ToUpper(p[:len(p)/2]) + p[len(p)/2:]
	case 4:
		p = "(" + p + ")"
	}
	if depth < 2 && r.coin(1, 3) {
		p = p + "|" + genRegex(r, depth+1)
	}
	return p
}

func genRegexNames(r *rng, short bool) []string {
	var names []string
	n := 4 + r.n(6)
	for i := 0; i < n; i++ {
		if short {
			alpha := "aabbc-ex{}]/._1\n A^$"
			k := r.n(5)
			var b []byte
			for j := 0; j < k; j++ {
				b = append(b, alpha[r.n(len(alpha))])
			}
			names = append(names, string(b))
			continue
		}
		s := refPool[r.n(len(refPool))]
		switch r.n(10) {
		case 0:
			s = s[:r.n(len(s)+1)]
		case 1:
			s = s + []string{"/", "x", "/x", "1", "\n", "-rc1"}[r.n(6)]
		case 2:
			s = strings.ToUpper(s)
		case 3:
			s = "x" + s
		case 4:
			s = s + "/é"
		}
		names = append(names, s)
	}
	return names
}

func init() {
	register(&engine{
		name: "regex",
		gen: func(r *rng, i int, tier string) []string {
			var p string
			short := false
			switch k := r.n(10); {
			case k < 2:
				p = rePool[r.n(len(rePool))]
			case k < 5:
				p = regexEdgePool[r.n(len(regexEdgePool))]
				short = true
			default:
				p = genRegex(r, 0)
			}
			names := genRegexNames(r, short)
			if short && r.coin(1, 2) {
				names = append(names, genRegexNames(r, false)[:2]...)
			}
			var hs []string
			for _, n := range names {
				hs = append(hs, hxs(n))
			}
			return []string{hxs(p), joinOrDash(hs, ","), regexOracle([]string{p}, names)}
		},
		exec: func(in []string) []string {
			p := string(unhx(in[0]))
			f, err := git.RegexpFilter(p)
			if err != nil {
				return []string{"invalid"}
			}
			var bits strings.Builder
			for _, h := range splitOrNil(in[1], ",") {
				if f.Filter(string(unhx(h))) {
					bits.WriteByte('1')
				} else {
					bits.WriteByte('0')
				}
			}
			return []string{"ok", bits.String()}
		},
		class: func(in, res []string) string { return res[0] },
	})
}
