//go:build verif

// Command verifdrv is the correspondence driver of /verif. It is injected into git-sizer's
// module at build time (go build -tags verif -overlay ...), so that it can call the real,
// unexported implementation in-process. Nothing of it is committed to /repo.
//
// Line protocol (one case per line, TAB separated, byte strings hex-encoded):
//
//	<engine> TAB <case-id> TAB <input fields...> TAB => TAB <observed result fields...>
//
// `verifdrv gen -engine E -seed S -n N` generates N cases of engine E and executes them;
// `verifdrv exec` reads lines (input part only is used) from stdin and re-executes them.
package main

import (
	"bufio"
	"flag"
	"fmt"
	"os"
	"sort"
	"strings"
	"time"
)

// engine is one sub-engine of the driver.
type engine struct {
	name string
	// gen produces the input fields of case number i (deterministic in rng).
	gen func(r *rng, i int, tier string) []string
	// exec runs the real implementation on the input fields and returns the observed result.
	exec func(in []string) []string
	// stats (optional) classifies a case for the input-distribution report.
	class func(in []string, res []string) string
}

var engines = map[string]*engine{}

func register(e *engine) { engines[e.name] = e }

// watchdog: the in-process aggregator engine must finish a case within this time; a change that makes the
// work grow with the EXPANDED size of a tree (C05: "time proportional to the number of distinct objects")
// would otherwise stall a shard for hours on a generated git bomb. After one timeout the rest of the shard
// is skipped (the stuck goroutine cannot be stopped); one failing input is enough.
var watchdogEngines = map[string]time.Duration{"graph": 60 * time.Second, "paths": 60 * time.Second}
var shardPoisoned bool

func safeExec(e *engine, in []string) (res []string) {
	if d, ok := watchdogEngines[e.name]; ok {
		if shardPoisoned {
			return []string{"skipped"}
		}
		ch := make(chan []string, 1)
		go func() { ch <- safeExec1(e, in) }()
		select {
		case r := <-ch:
			return r
		case <-time.After(d):
			shardPoisoned = true
			return []string{"timeout"}
		}
	}
	return safeExec1(e, in)
}

func safeExec1(e *engine, in []string) (res []string) {
	defer func() {
		if p := recover(); p != nil {
			res = []string{"panic"}
			if os.Getenv("VERIF_PANIC_TEXT") != "" {
				fmt.Fprintf(os.Stderr, "panic in %s: %v\n", e.name, p)
			}
		}
	}()
	return e.exec(in)
}

func emit(w *bufio.Writer, e *engine, id string, in, res []string) {
	w.WriteString(e.name)
	w.WriteByte('\t')
	w.WriteString(id)
	for _, f := range in {
		w.WriteByte('\t')
		w.WriteString(f)
	}
	w.WriteString("\t=>")
	for _, f := range res {
		w.WriteByte('\t')
		w.WriteString(f)
	}
	w.WriteByte('\n')
}

func main() {
	if len(os.Args) < 2 {
		fmt.Fprintln(os.Stderr, "usage: verifdrv gen|exec|list ...")
		os.Exit(2)
	}
	switch os.Args[1] {
	case "list":
		var names []string
		for n := range engines {
			names = append(names, n)
		}
		sort.Strings(names)
		fmt.Println(strings.Join(names, "\n"))
	case "gen":
		fs := flag.NewFlagSet("gen", flag.ExitOnError)
		name := fs.String("engine", "", "engine name")
		seed := fs.Uint64("seed", 1, "seed")
		n := fs.Int("n", 100, "number of cases")
		tier := fs.String("tier", "quick", "tier")
		start := fs.Int("start", 0, "first case number")
		statsPath := fs.String("stats", "", "write class histogram here")
		fs.Parse(os.Args[2:])
		e, ok := engines[*name]
		if !ok {
			fmt.Fprintf(os.Stderr, "unknown engine %q\n", *name)
			os.Exit(2)
		}
		w := bufio.NewWriterSize(os.Stdout, 1<<20)
		hist := map[string]int{}
		for i := *start; i < *start+*n; i++ {
			r := newRng(*seed, e.name, uint64(i))
			in := e.gen(r, i, *tier)
			res := safeExec(e, in)
			emit(w, e, fmt.Sprintf("%s-%d-%d", e.name, *seed, i), in, res)
			if e.class != nil {
				hist[e.class(in, res)]++
			}
		}
		w.Flush()
		if *statsPath != "" {
			f, err := os.Create(*statsPath)
			if err == nil {
				var keys []string
				for k := range hist {
					keys = append(keys, k)
				}
				sort.Strings(keys)
				for _, k := range keys {
					fmt.Fprintf(f, "%s\t%d\n", k, hist[k])
				}
				f.Close()
			}
		}
	case "exec":
		sc := bufio.NewScanner(os.Stdin)
		sc.Buffer(make([]byte, 1<<20), 1<<28)
		w := bufio.NewWriterSize(os.Stdout, 1<<20)
		for sc.Scan() {
			line := sc.Text()
			if line == "" {
				continue
			}
			fields := strings.Split(line, "\t")
			if len(fields) < 2 {
				continue
			}
			e, ok := engines[fields[0]]
			if !ok {
				fmt.Fprintf(os.Stderr, "unknown engine %q\n", fields[0])
				os.Exit(2)
			}
			in := fields[2:]
			for k, f := range in {
				if f == "=>" {
					in = in[:k]
					break
				}
			}
			res := safeExec(e, in)
			emit(w, e, fields[1], in, res)
			w.Flush()
		}
	default:
		fmt.Fprintln(os.Stderr, "unknown subcommand")
		os.Exit(2)
	}
}
