//go:build verif

package main

import (
	"github.com/github/git-sizer/counts"
)

// boundary-structured 64-bit values
func genU64(r *rng) uint64 {
	bases := []uint64{0, 1, 2, 1 << 31, 1<<32 - 1, 1 << 32, 1<<32 + 1, 1 << 53, 1<<63 - 1, 1 << 63, ^uint64(0)}
	switch r.n(6) {
	case 0:
		return bases[r.n(len(bases))]
	case 1:
		return bases[r.n(len(bases))] + uint64(r.n(8))
	case 2:
		return bases[r.n(len(bases))] - uint64(r.n(8))
	case 3:
		return r.u64() >> uint(r.n(64))
	case 4:
		return uint64(1)<<uint(r.n(64)) + uint64(r.n(5)) - 2
	default:
		return r.u64()
	}
}

func genU32(r *rng) uint64 {
	if r.coin(1, 2) {
		return genU64(r) & 0xffffffff
	}
	bases := []uint64{0, 1, 1 << 16, 1<<31 - 1, 1 << 31, 1<<32 - 2, 1<<32 - 1}
	return (bases[r.n(len(bases))] + uint64(r.n(5)) - 2) & 0xffffffff
}

func init() {
	ops := []string{"new32", "plus32", "inc32", "nec32", "pos32", "u64of32", "new64", "plus64", "inc64", "nec64", "pos64", "u64of64"}
	register(&engine{
		name: "counts",
		gen: func(r *rng, i int, tier string) []string {
			op := ops[i%len(ops)]
			var a, b uint64
			switch op {
			case "new32", "new64":
				a = genU64(r)
			case "plus32", "inc32", "nec32", "pos32", "u64of32":
				a, b = genU32(r), genU32(r)
				if r.coin(1, 4) {
					b = (1<<32 - 1 - a + uint64(r.n(5)) - 2) & 0xffffffff
				}
				if r.coin(1, 8) {
					b = a
				}
			default:
				a, b = genU64(r), genU64(r)
				if r.coin(1, 4) {
					b = ^uint64(0) - a + uint64(r.n(5)) - 2
				}
				if r.coin(1, 8) {
					b = a
				}
			}
			return []string{op, u(a), u(b)}
		},
		exec: func(in []string) []string {
			a, b := atou(in[1]), atou(in[2])
			switch in[0] {
			case "new32":
				return []string{u(uint64(counts.NewCount32(a)))}
			case "plus32":
				return []string{u(uint64(counts.Count32(a).Plus(counts.Count32(b))))}
			case "inc32":
				x := counts.Count32(a)
				x.Increment(counts.Count32(b))
				return []string{u(uint64(x))}
			case "nec32":
				x := counts.Count32(a)
				f := x.AdjustMaxIfNecessary(counts.Count32(b))
				return []string{u(uint64(x)), boolStr(f)}
			case "pos32":
				x := counts.Count32(a)
				f := x.AdjustMaxIfPossible(counts.Count32(b))
				return []string{u(uint64(x)), boolStr(f)}
			case "u64of32":
				v, o := counts.Count32(a).ToUint64()
				return []string{u(v), boolStr(o)}
			case "new64":
				return []string{u(uint64(counts.NewCount64(a)))}
			case "plus64":
				return []string{u(uint64(counts.Count64(a).Plus(counts.Count64(b))))}
			case "inc64":
				x := counts.Count64(a)
				x.Increment(counts.Count64(b))
				return []string{u(uint64(x))}
			case "nec64":
				x := counts.Count64(a)
				f := x.AdjustMaxIfNecessary(counts.Count64(b))
				return []string{u(uint64(x)), boolStr(f)}
			case "pos64":
				x := counts.Count64(a)
				f := x.AdjustMaxIfPossible(counts.Count64(b))
				return []string{u(uint64(x)), boolStr(f)}
			case "u64of64":
				v, o := counts.Count64(a).ToUint64()
				return []string{u(v), boolStr(o)}
			}
			panic("bad op")
		},
		class: func(in, res []string) string { return in[0] },
	})

	// human: FormatNumber / Format for both prefix systems
	register(&engine{
		name: "human",
		gen: func(r *rng, i int, tier string) []string {
			sys := "metric"
			if r.coin(1, 2) {
				sys = "binary"
			}
			n1 := genHuman(r, sys, i)
			var n2 uint64
			switch r.n(4) {
			case 0:
				n2 = n1 + 1
			case 1:
				n2 = n1 + uint64(r.n(2000))
			case 2:
				n2 = genHuman(r, sys, i)
			default:
				n2 = n1 + n1/uint64(100+r.n(1000))
			}
			if n2 < n1 {
				n2 = n1
			}
			return []string{sys, u(n1), u(n2)}
		},
		exec: func(in []string) []string {
			h := counts.Metric
			if in[0] == "binary" {
				h = counts.Binary
			}
			n := atou(in[1])
			num, unit := h.FormatNumber(n, "B")
			n2, u2 := h.Format(counts.NewCount64(n), "B")
			n3, u3 := h.Format(counts.NewCount32(n), "")
			m := atou(in[2])
			num4, unit4 := h.FormatNumber(m, "B")
			return []string{hxs(num), hxs(unit), hxs(n2), hxs(u2), hxs(n3), hxs(u3), hxs(num4), hxs(unit4)}
		},
		class: func(in, res []string) string {
			n := atou(in[1])
			switch {
			case n < 1000:
				return in[0] + "/small"
			case n < 1<<53:
				return in[0] + "/exact-float"
			default:
				return in[0] + "/inexact-float"
			}
		},
	})
}

// genHuman: neighbourhoods of prefix boundaries x {1,10,100,1000}, of half-unit points, small
// values, and stratified random values.
func genHuman(r *rng, sys string, i int) uint64 {
	base := uint64(1000)
	if sys == "binary" {
		base = 1024
	}
	pow := func(k int) uint64 {
		p := uint64(1)
		for j := 0; j < k; j++ {
			p *= base
		}
		return p
	}
	switch r.n(8) {
	case 0:
		return uint64(r.n(1 << 20))
	case 1, 2:
		// around m * base^k for m in {1, 10, 100, 1000, 1024}
		k := 1 + r.n(6)
		ms := []uint64{1, 10, 100, 1000, 1024, 9, 99, 999}
		m := ms[r.n(len(ms))]
		p := pow(k)
		if k == 6 && m > 18 {
			m = uint64(1 + r.n(16))
		}
		return m*p + uint64(r.n(4001)) - 2000
	case 3, 4:
		// around a half-unit point of the display: (q + 0.5) * 10^-d * base^k
		k := 1 + r.n(5)
		p := pow(k)
		d := r.n(3)
		var lo, hi uint64
		switch d {
		case 0:
			lo, hi = 100, 1024
		case 1:
			lo, hi = 100, 1000
		default:
			lo, hi = 100, 1000
		}
		q := lo + uint64(r.n(int(hi-lo)))
		// value = (q + 0.5)/10^d * p  with d digits: q has implicit scale
		scale := uint64(1)
		for j := 0; j < d; j++ {
			scale *= 10
		}
		// numeral q/scale + 0.5/scale
		num := (2*q + 1) // /(2*scale)
		hiP, loP := mul64(num, p)
		v := div128(hiP, loP, 2*scale)
		return v + uint64(r.n(7)) - 3
	case 5:
		return genU64(r)
	case 6:
		return r.u64() >> uint(r.n(64))
	default:
		return ^uint64(0) - uint64(r.n(100000))
	}
}

func mul64(a, b uint64) (hi, lo uint64) {
	const mask = 1<<32 - 1
	a0, a1 := a&mask, a>>32
	b0, b1 := b&mask, b>>32
	w0 := a0 * b0
	t := a1*b0 + w0>>32
	w1 := t & mask
	w2 := t >> 32
	w1 += a0 * b1
	hi = a1*b1 + w2 + w1>>32
	lo = a * b
	return
}

func div128(hi, lo, d uint64) uint64 {
	if hi >= d {
		return ^uint64(0)
	}
	var q, rem uint64
	rem = hi
	for i := 63; i >= 0; i-- {
		top := rem >> 63
		rem = rem<<1 | (lo>>uint(i))&1
		if top == 1 || rem >= d {
			rem -= d
			q |= 1 << uint(i)
		}
	}
	return q
}
