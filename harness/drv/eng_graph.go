//go:build verif

package main

import (
	"bytes"
	"encoding/binary"
	"encoding/hex"
	"fmt"
	"sort"
	"strconv"
	"strings"

	"github.com/github/git-sizer/counts"
	"github.com/github/git-sizer/git"
	"github.com/github/git-sizer/sizes"
)

// ---- repository description shared by the graph engines

type gEntry struct {
	mode uint64
	name []byte
	oid  int // index of the referenced object (-1: outside the repository, for gitlinks)
}

type gObj struct {
	kind    byte // 'b','t','c','g'
	size    uint64
	entries []gEntry // tree
	tree    int      // commit
	parents []int    // commit
	ref     int      // tag
	refKind byte     // tag: kind of the referent
	pad     int      // commit/tag: message length
	// extra header lines that git accepts after committer/tagger and that are NOT a tree, a
	// parent, the tagged object or its type although they are spelt like one (0 = none)
	extra    int
	extraRef int // object whose id the extra header carries
}

// extraHeaders renders the extra header lines of a commit or tag (see gObj.extra).
func (o *gObj) extraHeaders(hexOID func(int) string) string {
	switch {
	case o.kind == 'c' && o.extra == 1:
		return "parent " + hexOID(o.extraRef) + "\n"
	case o.kind == 'c' && o.extra == 2:
		return "tree " + hexOID(o.extraRef) + "\n"
	case o.kind == 'c' && o.extra == 3:
		return "parent of nothing\n"
	case o.kind == 'c' && o.extra == 4:
		return "gpgsig -----BEGIN\n parent " + hexOID(o.extraRef) + "\n tree " + hexOID(o.extraRef) + "\n -----END\n"
	case o.kind == 'g' && o.extra == 1:
		return "object " + hexOID(o.extraRef) + "\n"
	case o.kind == 'g' && o.extra == 2:
		return "type blob\n"
	}
	return ""
}

func (o *gObj) padField() string {
	if o.extra == 0 {
		return strconv.Itoa(o.pad)
	}
	return fmt.Sprintf("%dx%dx%d", o.pad, o.extra, o.extraRef)
}

func (o *gObj) setPadField(f string) {
	parts := strings.Split(f, "x")
	o.pad, _ = strconv.Atoi(parts[0])
	if len(parts) == 3 {
		o.extra, _ = strconv.Atoi(parts[1])
		o.extraRef, _ = strconv.Atoi(parts[2])
	}
}

// genExtra chooses an extra header for the commit or tag o (about one object in ten).
func genExtra(r *rng, o *gObj, commits, trees []int) {
	if !r.coin(1, 10) {
		return
	}
	if o.kind == 'g' {
		o.extra, o.extraRef = 1+r.n(2), o.ref
		return
	}
	switch v := 1 + r.n(4); v {
	case 1, 4:
		if len(commits) == 0 {
			o.extra = 3
		} else {
			o.extra, o.extraRef = v, commits[r.n(len(commits))]
		}
	case 2:
		o.extra, o.extraRef = 2, trees[r.n(len(trees))]
	default:
		o.extra = 3
	}
}

func oidOf(i int) []byte {
	b := make([]byte, 20)
	binary.BigEndian.PutUint32(b[0:4], uint32(i+1))
	for k := 4; k < 20; k++ {
		b[k] = 0x5a
	}
	if i < 0 {
		for k := 0; k < 20; k++ {
			b[k] = 0xee
		}
	}
	return b
}

func gitOID(i int) git.OID {
	o, err := git.OIDFromBytes(oidOf(i))
	if err != nil {
		panic(err)
	}
	return o
}

func idxOfOID(o git.OID) int {
	b := o.Bytes()
	return int(binary.BigEndian.Uint32(b[0:4])) - 1
}

func (o *gObj) data(objs []gObj) []byte {
	var b bytes.Buffer
	switch o.kind {
	case 't':
		for _, e := range o.entries {
			fmt.Fprintf(&b, "%o ", e.mode)
			b.Write(e.name)
			b.WriteByte(0)
			b.Write(oidOf(e.oid))
		}
	case 'c':
		fmt.Fprintf(&b, "tree %s\n", hex.EncodeToString(oidOf(o.tree)))
		for _, p := range o.parents {
			fmt.Fprintf(&b, "parent %s\n", hex.EncodeToString(oidOf(p)))
		}
		b.WriteString("author A <a@e> 1 +0000\ncommitter C <c@e> 1 +0000\n")
		b.WriteString(o.extraHeaders(func(i int) string { return hex.EncodeToString(oidOf(i)) }))
		if o.pad >= 0 { // pad < 0: no message and no blank line at all (git accepts such objects)
			b.WriteString("\n")
			b.WriteString(strings.Repeat("x", o.pad))
		}
	case 'g':
		typ := map[byte]string{'b': "blob", 't': "tree", 'c': "commit", 'g': "tag"}[o.refKind]
		fmt.Fprintf(&b, "object %s\ntype %s\ntag t\ntagger T <t@e> 1 +0000\n", hex.EncodeToString(oidOf(o.ref)), typ)
		b.WriteString(o.extraHeaders(func(i int) string { return hex.EncodeToString(oidOf(i)) }))
		if o.pad >= 0 {
			b.WriteString("\n")
			b.WriteString(strings.Repeat("x", o.pad))
		}
	}
	return b.Bytes()
}

func encRepo(objs []gObj) string {
	if len(objs) == 0 {
		return "-"
	}
	var parts []string
	for _, o := range objs {
		switch o.kind {
		case 'b':
			parts = append(parts, fmt.Sprintf("b:%d", o.size))
		case 't':
			var es []string
			for _, e := range o.entries {
				es = append(es, fmt.Sprintf("%d/%s/%d", e.mode, hx(e.name), e.oid))
			}
			parts = append(parts, fmt.Sprintf("t:%d:%s", o.size, joinOrDash(es, ";")))
		case 'c':
			var ps []string
			for _, p := range o.parents {
				ps = append(ps, strconv.Itoa(p))
			}
			parts = append(parts, fmt.Sprintf("c:%d:%d:%s:%s", o.size, o.tree, joinOrDash(ps, "."), o.padField()))
		case 'g':
			parts = append(parts, fmt.Sprintf("g:%d:%d:%c:%s", o.size, o.ref, o.refKind, o.padField()))
		}
	}
	return strings.Join(parts, ",")
}

func decRepo(s string) []gObj {
	var objs []gObj
	for _, p := range splitOrNil(s, ",") {
		f := strings.Split(p, ":")
		o := gObj{kind: f[0][0], size: atou(f[1])}
		switch o.kind {
		case 't':
			for _, es := range splitOrNil(f[2], ";") {
				ef := strings.Split(es, "/")
				oid, _ := strconv.Atoi(ef[2])
				o.entries = append(o.entries, gEntry{atou(ef[0]), unhx(ef[1]), oid})
			}
		case 'c':
			o.tree, _ = strconv.Atoi(f[2])
			for _, ps := range splitOrNil(f[3], ".") {
				pi, _ := strconv.Atoi(ps)
				o.parents = append(o.parents, pi)
			}
			o.setPadField(f[4])
		case 'g':
			o.ref, _ = strconv.Atoi(f[2])
			o.refKind = f[3][0]
			o.setPadField(f[4])
		}
		objs = append(objs, o)
	}
	return objs
}

// ---- generator

func indicesOf(objs []gObj, kind byte) []int {
	var r []int
	for i, o := range objs {
		if o.kind == kind {
			r = append(r, i)
		}
	}
	return r
}

func genBlobSize(r *rng) uint64 {
	switch r.n(10) {
	case 0:
		return []uint64{1<<32 - 1, 1 << 32, 1<<32 + 5, 1<<32 - 2, 1 << 33, 1 << 40, 1 << 62, 1<<63 + 7, 1<<64 - 1, 1<<31 + 1}[r.n(10)]
	case 1:
		return uint64(1)<<31 + uint64(r.n(1<<20))
	case 2:
		return 0
	default:
		return uint64(r.n(100000))
	}
}

func genEntryName(r *rng) []byte {
	if r.coin(1, 40) {
		return bytes.Repeat([]byte("n"), 250+r.n(100))
	}
	n := 1 + r.n(10)
	b := make([]byte, n)
	for i := range b {
		if r.coin(1, 12) {
			b[i] = byte(1 + r.n(255))
		} else {
			b[i] = "abcdefghij.-_ "[r.n(14)]
		}
	}
	return b
}

func genRepo(r *rng, tier string) []gObj {
	var objs []gObj
	maxN := 14
	if tier == "thorough" {
		maxN = 40
	}
	n := 1 + r.n(maxN)
	shape := r.n(10) // 0: bomb, 1: linear history, 2: tag fan-in, else mixed
	if shape == 2 {
		// several annotated tags pointing at the SAME annotated tag (and a chain above one of them): every
		// referrer must learn the referent's depth, however many wait for it (seeded C03q kept one listener)
		objs = append(objs, gObj{kind: 'b', size: genBlobSize(r)})
		objs = append(objs, gObj{kind: 't', entries: []gEntry{{0o100644, []byte("f"), 0}}})
		objs = append(objs, gObj{kind: 'c', tree: 1, pad: r.n(50)})
		objs = append(objs, gObj{kind: 'g', ref: 2, refKind: 'c', pad: r.n(20)}) // X
		k := 2 + r.n(3)
		for j := 0; j < k; j++ {
			objs = append(objs, gObj{kind: 'g', ref: 3, refKind: 'g', pad: r.n(20)})
		}
		objs = append(objs, gObj{kind: 'g', ref: 4 + r.n(k), refKind: 'g', pad: r.n(20)})
	}
	if shape == 3 && r.coin(1, 6) {
		// a directory with 255-320 subdirectories (distinct, or all the same tree) below a root tree: when it is
		// read none of them is known yet, so its count of pending entries passes 256 (a counter narrowed to 8 bits
		// wraps: seeded changes C01k / C04k / C09k)
		objs = append(objs, gObj{kind: 'b', size: genBlobSize(r)})
		n := []int{255, 256, 257, 258, 300, 320}[r.n(6)]
		same := r.coin(1, 3)
		first := len(objs)
		if same {
			objs = append(objs, gObj{kind: 't', entries: []gEntry{{0o100644, []byte("f"), 0}}})
		} else {
			for j := 0; j < n; j++ {
				objs = append(objs, gObj{kind: 't', entries: []gEntry{{0o100644, []byte(fmt.Sprintf("f%03d", j)), 0}}})
			}
		}
		var es []gEntry
		for j := 0; j < n; j++ {
			child := first
			if !same {
				child = first + j
			}
			es = append(es, gEntry{0o40000, []byte(fmt.Sprintf("%03x", j)), child})
		}
		objs = append(objs, gObj{kind: 't', entries: es})
		objs = append(objs, gObj{kind: 't', entries: []gEntry{{0o40000, []byte("cache"), len(objs) - 1}, {0o100644, []byte("README"), 0}}})
		objs = append(objs, gObj{kind: 'c', tree: len(objs) - 1, pad: r.n(50)})
	}
	if shape == 0 {
		// git bomb: a chain of trees, each holding k copies of the previous level
		objs = append(objs, gObj{kind: 'b', size: genBlobSize(r)})
		// sometimes every level also holds the EMPTY tree, under a name that sorts after (or before) the copies:
		// it is folded in when the level's counters may already be saturated (seeded change C05n incremented
		// the directory count with a bare `++` on that path)
		empty := -1
		if r.coin(1, 2) {
			objs = append(objs, gObj{kind: 't'})
			empty = len(objs) - 1
		}
		objs = append(objs, gObj{kind: 't', entries: []gEntry{{0o100644, []byte("f"), 0}, {0o120000, []byte("l"), 0}, {0o160000, []byte("s"), -1}}})
		depth := 3 + r.n(12)
		k := 2 + r.n(9)
		emptyName := []string{"zz-empty", "a-empty"}[r.n(2)]
		for d := 0; d < depth; d++ {
			var es []gEntry
			if empty >= 0 && emptyName == "a-empty" {
				es = append(es, gEntry{0o40000, []byte(emptyName), empty})
			}
			for j := 0; j < k; j++ {
				es = append(es, gEntry{0o40000, []byte(fmt.Sprintf("d%d", j)), len(objs) - 1})
			}
			if empty >= 0 && emptyName == "zz-empty" {
				es = append(es, gEntry{0o40000, []byte(emptyName), empty})
			}
			objs = append(objs, gObj{kind: 't', entries: es})
		}
		objs = append(objs, gObj{kind: 'c', tree: len(objs) - 1, pad: r.n(50)})
	}
	for len(objs) < n {
		blobs, trees, commits := indicesOf(objs, 'b'), indicesOf(objs, 't'), indicesOf(objs, 'c')
		switch k := r.n(10); {
		case k < 3 || len(objs) == 0:
			objs = append(objs, gObj{kind: 'b', size: genBlobSize(r)})
		case k < 6:
			ne := r.n(7)
			if r.coin(1, 10) {
				ne = 0
			}
			var es []gEntry
			for j := 0; j < ne; j++ {
				name := genEntryName(r)
				switch e := r.n(10); {
				case e < 4 && len(trees) > 0:
					es = append(es, gEntry{0o40000, name, trees[r.n(len(trees))]})
				case e < 8 && len(blobs) > 0:
					m := []uint64{0o100644, 0o100755, 0o100664, 0o644, 0, 0o140000}[r.n(6)]
					es = append(es, gEntry{m, name, blobs[r.n(len(blobs))]})
				case e == 8 && len(blobs) > 0:
					es = append(es, gEntry{0o120000, name, blobs[r.n(len(blobs))]})
				default:
					es = append(es, gEntry{0o160000, name, -1})
				}
			}
			// repeat one entry several times (same child under different names)
			if len(es) > 0 && r.coin(1, 4) {
				e := es[r.n(len(es))]
				for j := 0; j < 1+r.n(3); j++ {
					e2 := e
					e2.name = append(append([]byte{}, e.name...), byte('0'+j))
					es = append(es, e2)
				}
			}
			objs = append(objs, gObj{kind: 't', entries: es})
		case k < 9:
			if len(trees) == 0 {
				objs = append(objs, gObj{kind: 't'})
				trees = indicesOf(objs, 't')
			}
			var ps []int
			np := 0
			if len(commits) > 0 {
				np = []int{0, 1, 1, 1, 1, 2, 2, 3, 6}[r.n(9)]
				if shape == 1 {
					np = 1
				}
			}
			seen := map[int]bool{}
			for j := 0; j < np; j++ {
				p := commits[r.n(len(commits))]
				if shape == 1 {
					p = commits[len(commits)-1]
				}
				if !seen[p] || r.coin(1, 10) {
					seen[p] = true
					ps = append(ps, p)
				}
			}
			pad := r.n(200)
			if r.coin(1, 12) {
				pad = -1 // a commit without a message and without the blank line (seeded change C03k split the header block on LF)
			}
			if r.coin(1, 20) {
				pad = 60000 + r.n(10000)
			}
			c := gObj{kind: 'c', tree: trees[r.n(len(trees))], parents: ps, pad: pad}
			genExtra(r, &c, commits, trees)
			objs = append(objs, c)
		default:
			ref := r.n(len(objs))
			tags := indicesOf(objs, 'g')
			if len(tags) > 0 && r.coin(1, 2) {
				ref = tags[r.n(len(tags))]
			}
			g := gObj{kind: 'g', ref: ref, refKind: objs[ref].kind, pad: r.n(40)}
			if r.coin(1, 8) {
				g.pad = -1
			}
			genExtra(r, &g, nil, nil)
			objs = append(objs, g)
		}
	}
	for i := range objs {
		if objs[i].kind != 'b' {
			objs[i].size = uint64(len(objs[i].data(objs)))
		}
	}
	return objs
}

// trees reachable from tree t (including t)
func treeClosure(objs []gObj, t int, acc map[int]bool) {
	if acc[t] {
		return
	}
	acc[t] = true
	for _, e := range objs[t].entries {
		if e.mode&0o170000 == 0o40000 {
			treeClosure(objs, e.oid, acc)
		}
	}
}

func genSchedule(r *rng, objs []gObj) []string {
	n := len(objs)
	mode := r.n(6)
	var order []int
	switch mode {
	case 0: // driver-like: blobs, trees high->low, commits low->high, tags high->low
		for i := range objs {
			if objs[i].kind == 'b' {
				order = append(order, i)
			}
		}
		for i := n - 1; i >= 0; i-- {
			if objs[i].kind == 't' {
				order = append(order, i)
			}
		}
		for i := range objs {
			if objs[i].kind == 'c' {
				order = append(order, i)
			}
		}
		for i := n - 1; i >= 0; i-- {
			if objs[i].kind == 'g' {
				order = append(order, i)
			}
		}
		return fmtOps(objs, order)
	case 1: // children first everywhere
		for i := range objs {
			order = append(order, i)
		}
		return fmtOps(objs, order)
	}
	// random pick among ready objects
	done := make([]bool, n)
	ready := func(i int) bool {
		o := objs[i]
		switch o.kind {
		case 't':
			for _, e := range o.entries {
				k := e.mode & 0o170000
				if k != 0o40000 && k != 0o160000 && k != 0o120000 && !done[e.oid] {
					return false
				}
			}
		case 'c':
			cl := map[int]bool{}
			treeClosure(objs, o.tree, cl)
			for t := range cl {
				if !done[t] {
					return false
				}
			}
			for _, p := range o.parents {
				if !done[p] {
					return false
				}
			}
		}
		return true
	}
	for len(order) < n {
		var cand []int
		for i := 0; i < n; i++ {
			if !done[i] && ready(i) {
				cand = append(cand, i)
			}
		}
		var pick int
		switch mode {
		case 2: // parents (referrers) as early as possible
			pick = cand[len(cand)-1]
		default:
			pick = cand[r.n(len(cand))]
		}
		done[pick] = true
		order = append(order, pick)
	}
	return fmtOps(objs, order)
}

func fmtOps(objs []gObj, order []int) []string {
	var ops []string
	for _, i := range order {
		ops = append(ops, fmt.Sprintf("%c%d", objs[i].kind, i))
	}
	return ops
}

var groupSyms = []string{"", "branches", "tags", "other", "ignored", "mine", "a.b"}

// ---- execution against the real sizes.Graph

func fmtTreeSize(s sizes.TreeSize) string {
	return fmt.Sprintf("%d/%d/%d/%d/%d/%d/%d", s.MaxPathDepth, s.MaxPathLength, s.ExpandedTreeCount, s.ExpandedBlobCount,
		uint64(s.ExpandedBlobSize), s.ExpandedLinkCount, s.ExpandedSubmoduleCount)
}

func histNumbers(h sizes.HistorySize) string {
	v := []uint64{
		uint64(h.UniqueCommitCount), uint64(h.UniqueCommitSize), uint64(h.MaxCommitSize), uint64(h.MaxHistoryDepth), uint64(h.MaxParentCount),
		uint64(h.UniqueTreeCount), uint64(h.UniqueTreeSize), uint64(h.UniqueTreeEntries), uint64(h.MaxTreeEntries),
		uint64(h.UniqueBlobCount), uint64(h.UniqueBlobSize), uint64(h.MaxBlobSize),
		uint64(h.UniqueTagCount), uint64(h.MaxTagDepth), uint64(h.ReferenceCount),
		uint64(h.MaxPathDepth), uint64(h.MaxPathLength), uint64(h.MaxExpandedTreeCount), uint64(h.MaxExpandedBlobCount),
		uint64(h.MaxExpandedBlobSize), uint64(h.MaxExpandedLinkCount), uint64(h.MaxExpandedSubmoduleCount),
	}
	var parts []string
	for _, x := range v {
		parts = append(parts, u(x))
	}
	return strings.Join(parts, ",")
}

func histWitnesses(h sizes.HistorySize) string {
	ps := []*sizes.Path{h.MaxCommitSizeCommit, h.MaxParentCountCommit, h.MaxTreeEntriesTree, h.MaxBlobSizeBlob, h.MaxTagDepthTag,
		h.MaxPathDepthTree, h.MaxPathLengthTree, h.MaxExpandedTreeCountTree, h.MaxExpandedBlobCountTree, h.MaxExpandedBlobSizeTree,
		h.MaxExpandedLinkCountTree, h.MaxExpandedSubmoduleCountTree}
	var parts []string
	for _, p := range ps {
		o, ok := sizes.VerifPathOID(p)
		if !ok {
			parts = append(parts, "-")
		} else {
			parts = append(parts, strconv.Itoa(idxOfOID(o)))
		}
	}
	return strings.Join(parts, ",")
}

func runGraph(objs []gObj, ops []string, style sizes.NameStyle) (g *sizes.Graph, h sizes.HistorySize) {
	g = sizes.NewGraph(style)
	for _, op := range ops {
		if op[0] == 'r' {
			var groups []sizes.RefGroupSymbol
			for _, s := range splitOrNil(op[2:], "/") {
				if s == "~" {
					groups = append(groups, "")
				} else {
					groups = append(groups, sizes.RefGroupSymbol(unhx(s)))
				}
			}
			g.RegisterReference(git.Reference{Refname: "refs/x"}, groups)
			continue
		}
		i, _ := strconv.Atoi(op[1:])
		o := &objs[i]
		oid := gitOID(i)
		switch op[0] {
		case 'b':
			g.RegisterBlob(oid, counts.NewCount64(o.size))
		case 't':
			tree, err := git.ParseTree(oid, o.data(objs))
			if err != nil {
				panic(err)
			}
			if err := g.RegisterTree(oid, tree); err != nil {
				panic(err)
			}
		case 'c':
			c, err := git.ParseCommit(oid, o.data(objs))
			if err != nil {
				panic(err)
			}
			g.RegisterCommit(oid, c)
		case 'g':
			t, err := git.ParseTag(oid, o.data(objs))
			if err != nil {
				panic(err)
			}
			g.RegisterTag(oid, t)
		}
	}
	return g, g.HistorySize()
}

func init() {
	register(&engine{
		name: "graph",
		gen: func(r *rng, i int, tier string) []string {
			objs := genRepo(r, tier)
			ops := genSchedule(r, objs)
			// references with group symbols, anywhere in the schedule
			nr := r.n(4)
			for j := 0; j < nr; j++ {
				var gs []string
				for k := 0; k < r.n(4); k++ {
					sym := groupSyms[r.n(len(groupSyms))]
					if sym == "" {
						gs = append(gs, "~") // the top-level group's empty symbol
					} else {
						gs = append(gs, hxs(sym))
					}
				}
				pos := r.n(len(ops) + 1)
				ops = append(ops[:pos], append([]string{"r:" + strings.Join(gs, "/")}, ops[pos:]...)...)
			}
			// rarely: an invalid schedule (duplicate or missing delivery)
			if r.coin(1, 40) && len(ops) > 1 {
				pos := r.n(len(ops))
				if r.coin(1, 2) {
					ops = append(ops, ops[pos])
				} else {
					ops = append(ops[:pos], ops[pos+1:]...)
				}
			}
			return []string{encRepo(objs), joinOrDash(ops, ",")}
		},
		exec: func(in []string) []string {
			objs := decRepo(in[0])
			for i := range objs {
				if objs[i].kind != 'b' && objs[i].size != uint64(len(objs[i].data(objs))) {
					return []string{"harness-error"}
				}
			}
			// one schedule in four runs with --names=none: no paths are requested at all, every witness is nil
			// (a "nil means nothing recorded yet" shortcut then replaces maxima by the last value: seeded C03n)
			style := sizes.NameStyleHash
			if len(splitOrNil(in[1], ","))%4 == 1 {
				style = sizes.NameStyleNone
			}
			g, h := runGraph(objs, splitOrNil(in[1], ","), style)
			var gs []string
			for sym, c := range h.ReferenceGroups {
				gs = append(gs, hxs(string(sym))+"="+u(uint64(*c)))
			}
			sort.Strings(gs)
			var tm, cm, gm []string
			for i := range objs {
				switch objs[i].kind {
				case 't':
					if s, ok := g.VerifTreeSize(gitOID(i)); ok {
						tm = append(tm, fmt.Sprintf("%d:%s", i, fmtTreeSize(s)))
					}
				case 'c':
					if s, ok := g.VerifCommitSize(gitOID(i)); ok {
						cm = append(cm, fmt.Sprintf("%d:%d", i, s.MaxAncestorDepth))
					}
				case 'g':
					if s, ok := g.VerifTagSize(gitOID(i)); ok {
						gm = append(gm, fmt.Sprintf("%d:%d", i, s.TagDepth))
					}
				}
			}
			return []string{"ok", histNumbers(h), histWitnesses(h), joinOrDash(gs, ","), joinOrDash(tm, ";"), joinOrDash(cm, ","), joinOrDash(gm, ",")}
		},
		class: func(in, res []string) string {
			objs := decRepo(in[0])
			c := len(indicesOf(objs, 'c'))
			t := len(indicesOf(objs, 't'))
			cls := "small"
			if c >= 2 || t >= 3 {
				cls = "multi"
			}
			return res[0] + "/" + cls
		},
	})
}
