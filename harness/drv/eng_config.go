//go:build verif

package main

import (
	"bytes"
	"fmt"
	"os"
	"os/exec"
	"path/filepath"
	"strings"

	"github.com/github/git-sizer/git"
)

// When VERIF_FAKE_GIT is set the driver binary impersonates `git`: it prints the file named
// by VERIF_FAKE_GIT_OUT and exits with VERIF_FAKE_GIT_STATUS. Used to feed raw listings to
// the real Repository.GetConfig.
func init() {
	if os.Getenv("VERIF_FAKE_GIT") == "" {
		return
	}
	if p := os.Getenv("VERIF_FAKE_GIT_OUT"); p != "" {
		b, _ := os.ReadFile(p)
		os.Stdout.Write(b)
	}
	st := 0
	fmt.Sscanf(os.Getenv("VERIF_FAKE_GIT_STATUS"), "%d", &st)
	os.Exit(st)
}

func scratch() string {
	d := os.Getenv("VERIF_SCRATCH")
	if d == "" {
		d = os.TempDir()
	}
	return d
}

type cfgEntry struct {
	key      string
	value    string
	hasValue bool
}

func serListing(es []cfgEntry) []byte {
	var b bytes.Buffer
	for _, e := range es {
		b.WriteString(e.key)
		if e.hasValue {
			b.WriteByte('\n')
			b.WriteString(e.value)
		}
		b.WriteByte(0)
	}
	return b.Bytes()
}

var cfgSections = []string{"refgroup", "refgroup", "refgroup", "core", "user", "refgroupx", "refgrou", "sizer", "remote", "refgroup2"}
var cfgSubs = []string{"", "mine", "mine", "Mine", "a.b", "a", "a.b.c", "x y", "tags", "tags.releases", "q\"uote", "trail.", ".lead", "UP.low"}
var cfgVars = []string{"include", "exclude", "includeregexp", "excluderegexp", "name", "url", "bare", "foo", "includex"}

func genCfgEntry(r *rng) cfgEntry {
	sec := cfgSections[r.n(len(cfgSections))]
	sub := cfgSubs[r.n(len(cfgSubs))]
	v := cfgVars[r.n(len(cfgVars))]
	key := sec
	if sub != "" {
		key += "." + sub
	}
	key += "." + v
	e := cfgEntry{key: key, hasValue: true}
	if r.coin(1, 60) {
		// one record longer than 64 KiB (a tool-generated includeRegexp, say): everything git lists after it
		// must still be read (a bufio.Scanner with its default token limit stops there: seeded C15y / C07y)
		e.value = "refs/heads/(" + strings.Repeat("topic-"+string(randHeaderValue(r)[:1])+"|", 9000+r.n(3000)) + "x)"
		return e
	}
	switch r.n(8) {
	case 0:
		e.hasValue = false
	case 1:
		e.value = ""
	case 2:
		e.value = "line1\nline2\n\nline4"
	case 3:
		e.value = "refs/heads/" + string(randHeaderValue(r))
	case 4:
		e.value = "\n"
	case 5:
		e.value = " spaced \t value "
	default:
		e.value = "refs/" + []string{"heads", "tags", "remotes/origin", "foo"}[r.n(4)]
	}
	return e
}

func encCfg(es []git.ConfigEntry) string {
	if len(es) == 0 {
		return "-"
	}
	var parts []string
	for _, e := range es {
		parts = append(parts, hxs(e.Key)+":"+hxs(e.Value))
	}
	return strings.Join(parts, ",")
}

var cfgPrefixes = []string{"refgroup", "refgroup.mine", "refgroup.a", "refgroup.a.b", "refgroup.", "", "refgroup.Mine", "refgroup.tags", "refgroup.x y", "core", "refgrou", "refgroup.mine.include", "refgroup.trail."}

func init() {
	self, _ := os.Executable()
	register(&engine{
		name: "config",
		gen: func(r *rng, i int, tier string) []string {
			switch i % 4 {
			case 0, 1: // listing as git prints it, generated from entries
				n := r.n(8)
				var es []cfgEntry
				for j := 0; j < n; j++ {
					es = append(es, genCfgEntry(r))
				}
				return []string{"listing", hx(serListing(es)), hxs(cfgPrefixes[r.n(len(cfgPrefixes))])}
			case 2: // malformed listing
				n := 1 + r.n(5)
				var es []cfgEntry
				for j := 0; j < n; j++ {
					es = append(es, genCfgEntry(r))
				}
				return []string{"listing", hx(mutate(r, serListing(es))), hxs(cfgPrefixes[r.n(len(cfgPrefixes))])}
			default: // key/prefix matching
				keys := []string{"foo.bar", "foo.bar.baz", "foo.barbaz", "foo", "foo.", "refgroup.a.b.include", "refgroup.ab.include", ".", "..", "a..b"}
				k := keys[r.n(len(keys))]
				var p string
				switch r.n(4) {
				case 0:
					p = k[:r.n(len(k)+1)]
				case 1:
					p = k + []string{"", ".", "x", ".x"}[r.n(4)]
				case 2:
					p = keys[r.n(len(keys))]
				default:
					p = ""
				}
				return []string{"match", hxs(k), hxs(p)}
			}
		},
		exec: func(in []string) []string {
			switch in[0] {
			case "match":
				ok, rest := git.VerifConfigKeyMatchesPrefix(string(unhx(in[1])), string(unhx(in[2])))
				return []string{boolStr(ok), hxs(rest)}
			case "listing":
				f := filepath.Join(scratch(), fmt.Sprintf("listing-%d.bin", os.Getpid()))
				if err := os.WriteFile(f, unhx(in[1]), 0o644); err != nil {
					panic(err)
				}
				os.Setenv("VERIF_FAKE_GIT", "1")
				os.Setenv("VERIF_FAKE_GIT_OUT", f)
				os.Setenv("VERIF_FAKE_GIT_STATUS", "0")
				defer os.Unsetenv("VERIF_FAKE_GIT")
				repo := git.VerifNewRepository(scratch(), self)
				cfg, err := repo.GetConfig(string(unhx(in[2])))
				if err != nil {
					return []string{"err"}
				}
				return []string{"ok", encCfg(cfg.Entries)}
			}
			panic("bad op")
		},
		class: func(in, res []string) string { return in[0] + "/" + res[0] },
	})

	// confige2e: real config files in several scopes, real `git config --list -z` as reference
	register(&engine{
		name: "confige2e",
		gen: func(r *rng, i int, tier string) []string {
			// three files (global, local, included-by-command-line -c), each a list of lines
			var files []string
			for f := 0; f < 2; f++ {
				var b strings.Builder
				n := r.n(6)
				for j := 0; j < n; j++ {
					b.WriteString(genCfgFileStanza(r))
				}
				files = append(files, b.String())
			}
			if r.coin(1, 5) {
				// an included file (include.path, relative to the including file): its entries are listed in place
				files[0] += "[include]\n\tpath = extra.cfg\n" + genCfgFileStanza(r)
			}
			cmdline := ""
			if r.coin(1, 3) {
				cmdline = []string{"refgroup.cmd.include=refs/cmd", "refgroup.mine.exclude=refs/x", "foo.bar"}[r.n(3)]
			}
			return []string{hxs(files[0]), hxs(files[1]), hxs(cmdline), hxs(cfgPrefixes[r.n(len(cfgPrefixes))])}
		},
		exec: func(in []string) []string {
			dir, err := os.MkdirTemp(scratch(), "cfg")
			if err != nil {
				panic(err)
			}
			defer os.RemoveAll(dir)
			gitDir := filepath.Join(dir, "r.git")
			gitBin, _ := git.VerifGitBin()
			env := append(os.Environ(), "HOME="+dir, "XDG_CONFIG_HOME="+filepath.Join(dir, "xdg"), "GIT_CONFIG_NOSYSTEM=1", "GIT_CONFIG_GLOBAL="+filepath.Join(dir, "global"))
			run := func(args ...string) ([]byte, error) {
				c := exec.Command(gitBin, args...)
				c.Env = env
				c.Dir = dir
				return c.Output()
			}
			if _, err := run("init", "-q", "--bare", gitDir); err != nil {
				return []string{"setup-failed"}
			}
			os.WriteFile(filepath.Join(dir, "global"), unhx(in[0]), 0o644)
			os.WriteFile(filepath.Join(dir, "extra.cfg"), []byte("[refgroup \"included\"]\n\tinclude = refs/included\n[refgroup \"mine\"]\n\texclude = refs/heads/inc\n\tname\n"), 0o644)
			f, _ := os.OpenFile(filepath.Join(gitDir, "config"), os.O_APPEND|os.O_WRONLY, 0o644)
			f.Write(unhx(in[1]))
			f.Close()
			old := map[string]string{}
			set := func(k, v string) { old[k] = os.Getenv(k); os.Setenv(k, v) }
			set("HOME", dir)
			set("XDG_CONFIG_HOME", filepath.Join(dir, "xdg"))
			set("GIT_CONFIG_NOSYSTEM", "1")
			set("GIT_CONFIG_GLOBAL", filepath.Join(dir, "global"))
			if c := string(unhx(in[2])); c != "" {
				set("GIT_CONFIG_COUNT", "1")
				kv := strings.SplitN(c, "=", 2)
				set("GIT_CONFIG_KEY_0", kv[0])
				if len(kv) == 2 {
					set("GIT_CONFIG_VALUE_0", kv[1])
				} else {
					set("GIT_CONFIG_VALUE_0", "")
				}
			}
			defer func() {
				for k, v := range old {
					if v == "" {
						os.Unsetenv(k)
					} else {
						os.Setenv(k, v)
					}
				}
			}()
			repo := git.VerifNewRepository(gitDir, gitBin)
			// the reference listing: exactly the command GetConfig runs (GitCommand adds a -c entry)
			listing, err := repo.GitCommand("config", "--list", "-z").Output()
			if err != nil {
				return []string{"git-rejects-config"}
			}
			// what git itself reports for this repository in the caller's environment (every scope, the
			// command scope of GIT_CONFIG_COUNT included), asked for without going through GitCommand
			ic := exec.Command(gitBin, "config", "--list", "-z")
			ic.Env = append(os.Environ(), "GIT_DIR="+gitDir)
			ic.Dir = dir
			indep, ierr := ic.Output()
			if ierr != nil {
				return []string{"git-rejects-config"}
			}
			cfg, err := repo.GetConfig(string(unhx(in[3])))
			if err != nil {
				return []string{"err", hx(listing), hx(indep)}
			}
			return []string{"ok", hx(listing), encCfg(cfg.Entries), hx(indep)}
		},
		class: func(in, res []string) string { return res[0] },
	})
}

func genCfgFileStanza(r *rng) string {
	sec := cfgSections[r.n(len(cfgSections))]
	sub := cfgSubs[r.n(len(cfgSubs))]
	head := "[" + sec
	if sub != "" {
		head += " \"" + strings.ReplaceAll(strings.ReplaceAll(sub, "\\", "\\\\"), "\"", "\\\"") + "\""
	}
	head += "]\n"
	var b strings.Builder
	b.WriteString(head)
	n := 1 + r.n(3)
	for j := 0; j < n; j++ {
		v := cfgVars[r.n(len(cfgVars))]
		if r.coin(1, 4) {
			v = strings.ToUpper(v[:1]) + v[1:]
		}
		switch r.n(8) {
		case 0:
			b.WriteString("\t" + v + "\n") // key without a value
		case 1:
			b.WriteString("\t" + v + " =\n")
		case 2:
			b.WriteString("\t" + v + " = \"line1\\nline2\"\n")
		case 3:
			b.WriteString("\t" + v + " = \"  quoted ; # \" ; comment\n")
		case 4:
			b.WriteString("\t" + v + " = refs/heads/a\\\n\tcontinued\n")
		case 5:
			b.WriteString("\t" + v + " = refs/t\\tab\\\\back\n")
		default:
			b.WriteString("\t" + v + " = refs/" + []string{"heads", "tags", "remotes/origin", "foo"}[r.n(4)] + "\n")
		}
	}
	return b.String()
}
