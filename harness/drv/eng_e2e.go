//go:build verif

package main

import (
	"bytes"
	"compress/zlib"
	"crypto/sha1"
	"encoding/hex"
	"encoding/json"
	"fmt"
	"os"
	"os/exec"
	"path/filepath"
	"sort"
	"strconv"
	"strings"
	"time"
)

// ---------------------------------------------------------------- real repositories

type realRepo struct {
	dir      string   // GIT_DIR (bare)
	oids     []string // hex oid per object index
	objs     []gObj
	longTail func(name string) string // expands the "@LONGREF" marker of a reference name
}

// n bytes of 200-byte path components
func longName(n int) string {
	if n < 1 {
		return "w"
	}
	b := make([]byte, n)
	for i := range b {
		b[i] = 'w'
	}
	for i := 200; i < n-1; i += 201 {
		b[i] = '/'
	}
	return string(b)
}

func blobContent(i int, size uint64) []byte {
	p := []byte(fmt.Sprintf("blob %d\n", i))
	if uint64(len(p)) >= size {
		return p // size is at least the prefix: the generator keeps sizes >= 16
	}
	return append(p, bytes.Repeat([]byte{'x'}, int(size)-len(p))...)
}

func gitSortKey(e gEntry) string {
	if e.mode&0o170000 == 0o40000 {
		return string(e.name) + "/"
	}
	return string(e.name)
}

// realData builds the object's bytes with the real child oids.
func realData(objs []gObj, oids []string, i int, times []int64) []byte {
	o := objs[i]
	var b bytes.Buffer
	rawOID := func(j int) []byte {
		if j < 0 {
			h := sha1.Sum([]byte("submodule"))
			return h[:]
		}
		x, _ := hex.DecodeString(oids[j])
		return x
	}
	switch o.kind {
	case 'b':
		return blobContent(i, o.size)
	case 't':
		es := append([]gEntry{}, o.entries...)
		sort.SliceStable(es, func(a, c int) bool { return gitSortKey(es[a]) < gitSortKey(es[c]) })
		for _, e := range es {
			fmt.Fprintf(&b, "%o ", e.mode)
			b.Write(e.name)
			b.WriteByte(0)
			b.Write(rawOID(e.oid))
		}
	case 'c':
		fmt.Fprintf(&b, "tree %s\n", oids[o.tree])
		for _, p := range o.parents {
			fmt.Fprintf(&b, "parent %s\n", oids[p])
		}
		t := times[i]
		fmt.Fprintf(&b, "author A <a@e> %d +0000\ncommitter C <c@e> %d +0000\n", t, t)
		b.WriteString(o.extraHeaders(func(j int) string { return oids[j] }))
		if o.pad >= 0 { // pad < 0: no message and no blank line
			b.WriteString("\n")
			b.WriteString(fmt.Sprintf("commit-%d-end\n", i))
			b.WriteString(strings.Repeat("x", o.pad))
		}
	case 'g':
		typ := map[byte]string{'b': "blob", 't': "tree", 'c': "commit", 'g': "tag"}[o.refKind]
		fmt.Fprintf(&b, "object %s\ntype %s\ntag t%d\ntagger T <t@e> 1 +0000\n", oids[o.ref], typ, i)
		b.WriteString(o.extraHeaders(func(j int) string { return oids[j] }))
		if o.pad >= 0 {
			b.WriteString("\n")
			b.WriteString(strings.Repeat("x", o.pad))
		}
	}
	return b.Bytes()
}

var kindName = map[byte]string{'b': "blob", 't': "tree", 'c': "commit", 'g': "tag"}

func writeLoose(gitDir, kind string, data []byte) (string, error) {
	hdr := []byte(fmt.Sprintf("%s %d\x00", kind, len(data)))
	h := sha1.New()
	h.Write(hdr)
	h.Write(data)
	oid := hex.EncodeToString(h.Sum(nil))
	dir := filepath.Join(gitDir, "objects", oid[:2])
	if err := os.MkdirAll(dir, 0o755); err != nil {
		return "", err
	}
	p := filepath.Join(dir, oid[2:])
	if _, err := os.Stat(p); err == nil {
		return oid, nil
	}
	var z bytes.Buffer
	w := zlib.NewWriter(&z)
	w.Write(hdr)
	w.Write(data)
	w.Close()
	return oid, os.WriteFile(p, z.Bytes(), 0o444)
}

func gitEnv(extra ...string) []string {
	env := []string{}
	for _, e := range os.Environ() {
		if strings.HasPrefix(e, "GIT_") || strings.HasPrefix(e, "HOME=") || strings.HasPrefix(e, "XDG_CONFIG_HOME=") {
			continue
		}
		env = append(env, e)
	}
	env = append(env, "HOME="+scratch(), "GIT_CONFIG_NOSYSTEM=1", "GIT_CONFIG_GLOBAL=/dev/null")
	return append(env, extra...)
}

// hangLimit: how long a subprocess may run before it is killed and reported as hanging (code -9). Sixty seconds
// for the small repositories of most engines (they take milliseconds; the limit only has to tell a hang from a loaded machine); engines with deliberately heavy cases raise it (see `rw`), so that a
// loaded machine or the -race build does not turn a slow run into a "hang".
var hangLimit = 60 * time.Second

func runCmd(dir string, env []string, stdin []byte, name string, args ...string) (stdout, stderr []byte, code int) {
	c := exec.Command(name, args...)
	c.Dir = dir
	c.Env = env
	if stdin != nil {
		c.Stdin = bytes.NewReader(stdin)
	}
	var o, e bytes.Buffer
	c.Stdout, c.Stderr = &o, &e
	done := make(chan error, 1)
	if err := c.Start(); err != nil {
		return nil, []byte(err.Error()), -2
	}
	go func() { done <- c.Wait() }()
	select {
	case err := <-done:
		if err != nil {
			if ee, ok := err.(*exec.ExitError); ok {
				code = ee.ExitCode()
			} else {
				code = -2
			}
		}
	case <-time.After(hangLimit):
		c.Process.Kill()
		<-done
		code = -9 // hang
	}
	return o.Bytes(), e.Bytes(), code
}

// buildRepo writes the described objects and references into a fresh bare repository.
// refs: "name=index" (or "name=index@other" for a symbolic ref to `other`, which names object `index`).
func buildRepo(objs []gObj, times []int64, refs []string) (*realRepo, error) {
	return buildRepoKind(objs, times, refs, true)
}

// buildRepoKind: bare (<tmp>/r.git) or with a work tree (<tmp>/w, git dir <tmp>/w/.git)
func buildRepoKind(objs []gObj, times []int64, refs []string, bare bool) (*realRepo, error) {
	dir, err := os.MkdirTemp(scratch(), "r")
	if err != nil {
		return nil, err
	}
	gitDir := filepath.Join(dir, "r.git")
	initArgs := []string{"init", "-q", "--bare", gitDir}
	if !bare {
		gitDir = filepath.Join(dir, "w", ".git")
		initArgs = []string{"init", "-q", filepath.Join(dir, "w")}
	}
	if _, e, code := runCmd(dir, gitEnv(), nil, "git", initArgs...); code != 0 {
		// once more before giving up: a failure to set the scratch repository up is reported as a broken check
		time.Sleep(200 * time.Millisecond)
		os.RemoveAll(gitDir)
		if _, e2, code2 := runCmd(dir, gitEnv(), nil, "git", initArgs...); code2 != 0 {
			return nil, fmt.Errorf("git init: %s / %s", e, e2)
		}
	}
	rr := &realRepo{dir: gitDir, objs: objs, oids: make([]string, len(objs))}
	// "@LONGREF" in a reference name stands for the longest tail for which <gitdir>/<name> is still a valid path
	// (4095 bytes; 4 bytes are left so that a copy of the repository under a slightly longer name still holds
	// the loose file): about 4046 bytes here, so the `for-each-ref` line is longer than a 4096-byte read buffer
	// (seeded change C19m read the listing with bufio.ReadSlice)
	rr.longTail = func(name string) string {
		if !strings.Contains(name, "@LONGREF") {
			return name
		}
		return strings.Replace(name, "@LONGREF", longName(4095-len(gitDir)-1-4-(len(name)-len("@LONGREF"))), 1)
	}
	for i := range objs {
		data := realData(objs, rr.oids, i, times)
		oid, err := writeLoose(gitDir, kindName[objs[i].kind], data)
		if err != nil {
			return nil, err
		}
		rr.oids[i] = oid
	}
	var packed bytes.Buffer
	packed.WriteString("# pack-refs with: peeled fully-peeled sorted \n")
	type pr struct{ name, oid string }
	var prs []pr
	for _, r := range refs {
		kv := strings.SplitN(r, "=", 2)
		if at := strings.Index(kv[1], "@"); at >= 0 {
			// a symbolic reference: a loose file `ref: <target>`
			os.MkdirAll(filepath.Dir(filepath.Join(gitDir, kv[0])), 0o755)
			os.WriteFile(filepath.Join(gitDir, kv[0]), []byte("ref: "+rr.longTail(kv[1][at+1:])+"\n"), 0o644)
			continue
		}
		idx, _ := refIdx(kv[1])
		name := rr.longTail(kv[0])
		if h := strings.Index(name, "#"); h >= 0 {
			j, _ := strconv.Atoi(name[h+1:])
			name = name[:h] + rr.oids[j]
		}
		prs = append(prs, pr{name, rr.oids[idx]})
	}
	sort.Slice(prs, func(a, b int) bool { return prs[a].name < prs[b].name })
	// one repository in three keeps its references as loose files (component names up to 255 bytes fit)
	looseRefs := len(refs)%3 == 1
	for _, p := range prs {
		if looseRefs {
			f := filepath.Join(gitDir, p.name)
			if os.MkdirAll(filepath.Dir(f), 0o755) == nil && os.WriteFile(f, []byte(p.oid+"\n"), 0o644) == nil {
				continue
			}
		}
		fmt.Fprintf(&packed, "%s %s\n", p.oid, p.name)
	}
	if err := os.WriteFile(filepath.Join(gitDir, "packed-refs"), packed.Bytes(), 0o644); err != nil {
		return nil, err
	}
	// every other repository has HEAD detached at its newest commit object, which no reference need reach
	// (mid-rebase, `checkout --detach`): HEAD is not a reference and is never traversed unless it is given
	// as a ROOT (seeded change C02m listed objects with `rev-list --all`, which includes HEAD)
	if cs := indicesOf(objs, 'c'); len(cs) > 0 && (len(objs)+len(refs))%2 == 0 {
		os.WriteFile(filepath.Join(gitDir, "HEAD"), []byte(rr.oids[cs[len(cs)-1]]+"\n"), 0o644)
	}
	return rr, nil
}

func (rr *realRepo) cleanup() {
	if os.Getenv("VERIF_KEEP") == "1" { // (development) keep the scratch repository for inspection
		fmt.Fprintln(os.Stderr, "kept:", rr.dir)
		return
	}
	d := filepath.Dir(rr.dir)
	if filepath.Base(rr.dir) == ".git" {
		d = filepath.Dir(d)
	}
	// linked worktrees and copies are created next to the repository, inside the same temp dir
	filepath.Walk(d, func(p string, info os.FileInfo, err error) error {
		if err == nil && info.IsDir() {
			os.Chmod(p, 0o755)
		}
		return nil
	})
	os.RemoveAll(d)
}

func (rr *realRepo) indexOf(oid string) int {
	for i, o := range rr.oids {
		if o == oid {
			return i
		}
	}
	return -1
}

// ---------------------------------------------------------------- running git-sizer

func sizerBin() string {
	if b := os.Getenv("VERIF_BIN"); b != "" {
		return filepath.Join(b, "git-sizer")
	}
	return "git-sizer"
}

var v1NumberKeys = []string{
	"unique_commit_count", "unique_commit_size", "max_commit_size", "max_history_depth", "max_parent_count",
	"unique_tree_count", "unique_tree_size", "unique_tree_entries", "max_tree_entries",
	"unique_blob_count", "unique_blob_size", "max_blob_size", "unique_tag_count", "max_tag_depth", "reference_count",
	"max_path_depth", "max_path_length", "max_expanded_tree_count", "max_expanded_blob_count",
	"max_expanded_blob_size", "max_expanded_link_count", "max_expanded_submodule_count"}

var v1WitnessKeys = []string{
	"max_commit", "max_parent_count_commit", "max_tree_entries_tree", "max_blob_size_blob", "max_tag_depth_tag",
	"max_path_depth_tree", "max_path_length_tree", "max_expanded_tree_count_tree", "max_expanded_blob_count_tree",
	"max_expanded_blob_size_tree", "max_expanded_link_count_tree", "max_expanded_submodule_count_tree"}

type sizerRun struct {
	code   int
	stdout []byte
	stderr []byte
	nums   string   // comma separated, v1NumberKeys order ("" if stdout is not the JSON report)
	wits   []string // raw witness strings
	groups string
}

func parseV1(out []byte) (nums string, wits []string, groups string, ok bool) {
	var m map[string]json.RawMessage
	if json.Unmarshal(out, &m) != nil {
		return "", nil, "", false
	}
	var ns []string
	for _, k := range v1NumberKeys {
		raw, ok := m[k]
		if !ok {
			return "", nil, "", false
		}
		ns = append(ns, string(raw))
	}
	for _, k := range v1WitnessKeys {
		raw, ok := m[k]
		if !ok {
			wits = append(wits, "")
			continue
		}
		var s string
		json.Unmarshal(raw, &s)
		wits = append(wits, s)
	}
	var gm map[string]uint64
	json.Unmarshal(m["reference_groups"], &gm)
	var gs []string
	for k, v := range gm {
		gs = append(gs, hxs(k)+"="+u(v))
	}
	sort.Strings(gs)
	return strings.Join(ns, ","), wits, joinOrDash(gs, ","), true
}

func runSizer(cwd string, env []string, args ...string) sizerRun {
	o, e, code := runCmd(cwd, env, nil, sizerBin(), args...)
	r := sizerRun{code: code, stdout: o, stderr: e}
	if nums, wits, groups, ok := parseV1(o); ok {
		r.nums, r.wits, r.groups = nums, wits, groups
	}
	return r
}

// ---------------------------------------------------------------- generator for e2e repositories

type e2eCase struct {
	objs  []gObj
	times []int64
	refs  []string // name=index
	args  []string // reference options / ROOT arguments
	roots []int    // expected walked roots (indices), as selected by the harness' own rules
	nrefs int
}

var e2eNames = []string{"a", "b", "dir", "file.txt", "x y", "ü", "Makefile", "src", "README", "a.b", "z-1", "sp ace", "q\"uote", "back\\slash", "tab\tname", "star*", "[9]", "semi;colon", "caf\xe9.txt", "a\x01b", "del\x7f", "{}", "{{cc.name}}", "x}", "at@{1}", "co:lon", "new\nline", "-dash", "--names=none", "dir.txt", "src~", "README ", "100%", "a%\"b", "%s%d%v", "50%!", "a\\u0026b", "x\\\\u003cy", "R&D <x>"}

// a "git bomb" that is deep rather than wide: 35-45 levels of trees, each holding the level below twice,
// over a leaf directory; with full names every cited object deep inside has to be described. The scan and
// the report must take time proportional to the ~45 objects (C05), not to the 2^40 expanded entries.
func deepBombRepo(r *rng) ([]gObj, []int64) {
	objs := []gObj{{kind: 'b', size: uint64(10 + r.n(50))}}
	var leaf []gEntry
	for i := 0; i < 3+r.n(5); i++ {
		leaf = append(leaf, gEntry{0o100644, []byte(fmt.Sprintf("f%d", i)), 0})
	}
	objs = append(objs, gObj{kind: 't', entries: leaf})
	depth := 35 + r.n(11)
	for d := 0; d < depth; d++ {
		objs = append(objs, gObj{kind: 't', entries: []gEntry{{0o40000, []byte("d0"), len(objs) - 1}, {0o40000, []byte("d1"), len(objs) - 1}}})
	}
	objs = append(objs, gObj{kind: 'c', tree: len(objs) - 1, pad: r.n(30)})
	times := make([]int64, len(objs))
	for i := range times {
		times[i] = 1500000000
	}
	return objs, times
}

// a directory with 65 536-65 700 subdirectories, all the same small tree: one commit, two trees, one blob. When
// the wide tree is read none of its 65 536+ entries is known yet (a 16-bit count of pending entries wraps
// through zero: seeded changes C01q, C09q)
func wideFanRepo(r *rng) ([]gObj, []int64) {
	objs := []gObj{{kind: 'b', size: uint64(5 + r.n(20))}}
	objs = append(objs, gObj{kind: 't', entries: []gEntry{{0o100644, []byte("file.txt"), 0}}})
	n := 65536 + r.n(165)
	es := make([]gEntry, 0, n)
	for i := 0; i < n; i++ {
		es = append(es, gEntry{0o40000, []byte(fmt.Sprintf("d%05d", i)), 1})
	}
	objs = append(objs, gObj{kind: 't', entries: es})
	objs = append(objs, gObj{kind: 'c', tree: 2, pad: r.n(30)})
	return objs, []int64{1500000000, 1500000000, 1500000000, 1500000000}
}

// a path longer than 64 KiB: 262-300 nested directories with 250-byte names over one file. `rev-list --objects`
// prints "<oid> <path>" lines of any length (a line reader with a 64-KiB token limit aborts: finding F22)
func longPathRepo(r *rng) ([]gObj, []int64) {
	objs := []gObj{{kind: 'b', size: uint64(5 + r.n(20))}}
	objs = append(objs, gObj{kind: 't', entries: []gEntry{{0o100644, []byte("f"), 0}}})
	depth := 262 + r.n(39)
	for d := 0; d < depth; d++ {
		name := []byte(strings.Repeat(string(rune('a'+d%26)), 250))
		objs = append(objs, gObj{kind: 't', entries: []gEntry{{0o40000, name, len(objs) - 1}}})
	}
	objs = append(objs, gObj{kind: 'c', tree: len(objs) - 1, pad: r.n(30)})
	times := make([]int64, len(objs))
	for i := range times {
		times[i] = 1500000000
	}
	return objs, times
}

// "subtree split": a directory Z with many entries is the ROOT tree of the newest commit (so it is finished
// and cited before anything names it) and, in an older commit on another branch, the LAST subdirectory of a
// root that has other subdirectories before it: every entry reported to the path resolver must carry its
// own object id (seeded C08y reported the last entry's id for all of them)
func subtreeSplitRepo(r *rng) ([]gObj, []int64) {
	objs := []gObj{{kind: 'b', size: uint64(30 + r.n(200))}, {kind: 'b', size: uint64(300 + r.n(2000))}}
	var zs []gEntry
	for i := 0; i < 8+r.n(8); i++ {
		zs = append(zs, gEntry{0o100644, []byte(fmt.Sprintf("f%02d", i)), i % 2})
	}
	objs = append(objs, gObj{kind: 't', entries: zs})                                   // 2 = Z
	objs = append(objs, gObj{kind: 't', entries: []gEntry{{0o100644, []byte("g"), 0}}}) // 3 = A
	objs = append(objs, gObj{kind: 't', entries: []gEntry{{0o40000, []byte("a"), 3}, {0o100644, []byte("m.txt"), 0}, {0o40000, []byte("z"), 2}}}) // 4 = old root
	objs = append(objs, gObj{kind: 'c', tree: 4, pad: r.n(40)})                         // 5 = old commit
	objs = append(objs, gObj{kind: 'c', tree: 2, pad: r.n(40)})                         // 6 = split commit (newest)
	times := []int64{0, 0, 0, 0, 0, 1500000000, 1600000000}
	return objs, times
}

func genE2ERepo(r *rng, tier string) ([]gObj, []int64) {
	if r.coin(1, 40) {
		return deepBombRepo(r)
	}
	if r.coin(1, 40) {
		return subtreeSplitRepo(r)
	}
	var objs []gObj
	maxN := 18
	if tier == "thorough" {
		maxN = 60
	}
	n := 3 + r.n(maxN)
	for len(objs) < n {
		blobs, trees, commits := indicesOf(objs, 'b'), indicesOf(objs, 't'), indicesOf(objs, 'c')
		switch k := r.n(10); {
		case k < 3 || len(objs) == 0:
			sz := uint64(16 + r.n(3000))
			if r.coin(1, 15) {
				sz = 0 // the empty blob
			}
			objs = append(objs, gObj{kind: 'b', size: sz})
		case k < 6:
			ne := r.n(6)
			var es []gEntry
			used := map[string]bool{}
			for j := 0; j < ne; j++ {
				name := e2eNames[r.n(len(e2eNames))]
				if r.coin(1, 10) {
					name = strings.Repeat("n", 100+r.n(150))
				}
				if r.coin(1, 80) {
					// a name longer than 8 KiB: `rev-list --objects` prints "<oid> <path>" lines of any length
					// (a line reader with a fixed buffer mis-splits them: seeded C01y)
					name = strings.Repeat("L", 8200+r.n(6000))
				}
				if used[name] {
					continue
				}
				used[name] = true
				switch e := r.n(10); {
				case e < 4 && len(trees) > 0:
					es = append(es, gEntry{0o40000, []byte(name), trees[r.n(len(trees))]})
				case e < 8 && len(blobs) > 0:
					es = append(es, gEntry{[]uint64{0o100644, 0o100755}[r.n(2)], []byte(name), blobs[r.n(len(blobs))]})
				case e == 8 && len(blobs) > 0:
					es = append(es, gEntry{0o120000, []byte(name), blobs[r.n(len(blobs))]})
				default:
					link := -1
					if len(commits) > 0 && r.coin(1, 3) {
						link = commits[r.n(len(commits))] // a submodule whose commit is stored in this repository
					}
					es = append(es, gEntry{0o160000, []byte(name), link})
				}
			}
			objs = append(objs, gObj{kind: 't', entries: es})
		case k < 9:
			if len(trees) == 0 {
				objs = append(objs, gObj{kind: 't'})
				trees = indicesOf(objs, 't')
			}
			var ps []int
			np := 0
			if len(commits) > 0 {
				np = []int{0, 1, 1, 1, 1, 2, 2, 3, 5}[r.n(9)]
			}
			seen := map[int]bool{}
			for j := 0; j < np; j++ {
				p := commits[r.n(len(commits))]
				if !seen[p] {
					seen[p] = true
					ps = append(ps, p)
				}
			}
			c := gObj{kind: 'c', tree: trees[r.n(len(trees))], parents: ps, pad: r.n(300)}
			if r.coin(1, 12) {
				c.pad = -1 // no message, no blank line (seeded change C03k)
			}
			if r.coin(1, 60) {
				c.pad = 1<<20 + r.n(1<<20) // a commit message of more than 1 MiB: the commit's size is its full length (seeded C02y)
			}
			genExtra(r, &c, commits, trees)
			objs = append(objs, c)
		default:
			ref := r.n(len(objs))
			tags := indicesOf(objs, 'g')
			if len(tags) > 0 && r.coin(1, 2) {
				ref = tags[r.n(len(tags))]
			}
			g := gObj{kind: 'g', ref: ref, refKind: objs[ref].kind, pad: r.n(40)}
			if r.coin(1, 8) {
				g.pad = -1
			}
			genExtra(r, &g, nil, nil)
			objs = append(objs, g)
		}
	}
	// timestamps: random, all equal, or children older than parents
	times := make([]int64, len(objs))
	mode := r.n(3)
	for i := range objs {
		switch mode {
		case 0:
			times[i] = int64(1 + r.n(2000000000))
		case 1:
			times[i] = 1500000000
		default:
			times[i] = int64(2000000000 - 1000*i)
		}
	}
	return objs, times
}

var refPrefixes = []string{"refs/heads/", "refs/heads/", "refs/tags/", "refs/remotes/origin/", "refs/notes/", "refs/pull/1/", "refs/other/"}

func genE2ERefs(r *rng, objs []gObj) []string {
	var refs []string
	nr := 1 + r.n(6)
	if r.coin(1, 40) {
		nr = 0 // a repository without any reference (only ROOT arguments can select something)
	}
	used := map[string]bool{}
	for j := 0; j < nr; j++ {
		p := refPrefixes[r.n(len(refPrefixes))]
		name := p + []string{"main", "dev", "v1", "x", "feature/a", "zeta", "a{b", "main"}[r.n(8)]
		if r.coin(1, 25) {
			// Unicode spaces are legal in reference names (only ASCII space and control characters are not)
			name = p + []string{"rel\u00a0notes", "feature\u3000x", "wide\u2003gap", "nb\u00a0sp/tip"}[r.n(4)]
		}
		if r.coin(1, 10) {
			// a percent sign (a report written through a printf-style call would read it as a verb: seeded C19k)
			name = p + []string{"rel-100%", "50%25", "%s", "x%"}[r.n(4)]
		}
		if r.coin(1, 60) {
			// a reference name of about 3 KiB (many long components): `for-each-ref` lines and descriptions of any length
			name = p + strings.Repeat(strings.Repeat("w", 180+r.n(40))+"/", 12+r.n(4)) + "tip"
		}
		if r.coin(1, 30) {
			name = p + "@LONGREF" // expanded when the repository is written: see buildRepoKind
		}
		if used[name] || used[name+"/"] {
			continue
		}
		// avoid D/F conflicts like refs/heads/feature and refs/heads/feature/a
		conflict := false
		for u2 := range used {
			if strings.HasPrefix(u2, name+"/") || strings.HasPrefix(name, u2+"/") {
				conflict = true
			}
		}
		if conflict {
			continue
		}
		used[name] = true
		var cand []int
		for i, o := range objs {
			switch {
			case strings.HasPrefix(p, "refs/heads/") || strings.HasPrefix(p, "refs/remotes/"):
				if o.kind == 'c' {
					cand = append(cand, i)
				}
			default:
				cand = append(cand, i)
			}
		}
		if len(cand) == 0 {
			for i := range objs {
				cand = append(cand, i)
			}
		}
		target := cand[r.n(len(cand))]
		if len(refs) > 0 && r.coin(1, 3) {
			// several references naming the same object (a branch and its remote-tracking
			// twin, a lightweight tag on a branch tip): only some of them may be selected
			prev, _ := refIdx(strings.SplitN(refs[r.n(len(refs))], "=", 2)[1])
			for _, c := range cand {
				if c == prev {
					target = prev
				}
			}
		}
		refs = append(refs, fmt.Sprintf("%s=%d", name, target))
	}
	// a tag whose short name git would resolve to something else (`stash` with refs/stash present,
	// `heads/main` with refs/heads/main, …): descriptions must use names that resolve to the cited object
	// (seeded change C08n shortened refs/tags/X to X)
	if r.coin(1, 12) && len(objs) >= 2 {
		pair := [][2]string{{"refs/stash", "refs/tags/stash"}, {"refs/heads/main", "refs/tags/heads/main"}, {"refs/notes/commits", "refs/tags/notes/commits"}, {"refs/heads/v1", "refs/tags/v1"}}[r.n(4)]
		ok := true
		for u2 := range used {
			for _, n := range pair {
				if u2 == n || strings.HasPrefix(u2, n+"/") || strings.HasPrefix(n, u2+"/") {
					ok = false
				}
			}
		}
		commits := indicesOf(objs, 'c')
		if ok && len(commits) >= 1 {
			a := commits[r.n(len(commits))]
			b := r.n(len(objs))
			if a != b {
				used[pair[0]], used[pair[1]] = true, true
				refs = append(refs, fmt.Sprintf("%s=%d", pair[0], a), fmt.Sprintf("%s=%d", pair[1], b))
			}
		}
	}
	// a symbolic reference under refs/ (origin/HEAD in every clone; an alias branch): it is a reference like
	// any other — counted, grouped and walked by ITS OWN name, whether or not its target is selected
	// (seeded change C01n did not walk symbolic references)
	if r.coin(1, 4) && len(refs) > 0 {
		t := strings.SplitN(refs[r.n(len(refs))], "=", 2)
		name := []string{"refs/heads/alias", "refs/remotes/origin/HEAD", "refs/tags/current", "refs/other/link"}[r.n(4)]
		ok := !strings.Contains(t[1], "@")
		for u2 := range used {
			if u2 == name || strings.HasPrefix(u2, name+"/") || strings.HasPrefix(name, u2+"/") {
				ok = false
			}
		}
		if ok {
			refs = append(refs, fmt.Sprintf("%s=%s@%s", name, t[1], t[0]))
		}
	}
	sort.Strings(refs)
	return refs
}

// the object index of a reference description ("7" or, for a symbolic reference, "7@refs/heads/main")
func refIdx(s string) (int, error) {
	if at := strings.Index(s, "@"); at >= 0 {
		s = s[:at]
	}
	return strconv.Atoi(s)
}

func refSelected(name string, rule string) bool {
	switch rule {
	case "all":
		return true
	case "branches":
		return strings.HasPrefix(name, "refs/heads/")
	case "tags":
		return strings.HasPrefix(name, "refs/tags/")
	case "no-tags":
		return !strings.HasPrefix(name, "refs/tags/")
	case "none":
		return false
	}
	return false
}

// selection: a rule the harness can evaluate itself + optional explicit ROOT arguments
func genSelection(r *rng, objs []gObj, refs []string) (args []string, roots []int) {
	rule := []string{"all", "all", "branches", "tags", "no-tags"}[r.n(5)]
	switch rule {
	case "branches":
		args = append(args, "--branches")
	case "tags":
		args = append(args, "--tags")
	case "no-tags":
		args = append(args, "--no-tags")
	}
	// explicit roots: "#i" is replaced by the real oid of object i at execution time; the harness
	// computes the object each ROOT form denotes from its own description of the repository
	if r.coin(1, 3) {
		nx := 1 + r.n(2)
		for j := 0; j < nx; j++ {
			i := r.n(len(objs))
			form := r.n(8)
			switch {
			case form == 0: // abbreviated object id
				args = append(args, "#"+strconv.Itoa(i)+"%14")
				roots = append(roots, i)
			case form == 1: // a reference name pointing at the object
				done := false
				for _, rf := range refs {
					kv := strings.SplitN(rf, "=", 2)
					if idx, _ := refIdx(kv[1]); idx == i {
						args = append(args, kv[0])
						roots = append(roots, i)
						done = true
						break
					}
				}
				if !done {
					args = append(args, "#"+strconv.Itoa(i))
					roots = append(roots, i)
				}
			case form == 2 && objs[i].kind == 'c': // X^{tree}
				args = append(args, "#"+strconv.Itoa(i)+"^{tree}")
				roots = append(roots, objs[i].tree)
			case form == 3 && objs[i].kind == 'c': // X:
				args = append(args, "#"+strconv.Itoa(i)+":")
				roots = append(roots, objs[i].tree)
			case form == 4 && objs[i].kind == 'c' && len(objs[objs[i].tree].entries) > 0: // X:name
				es := objs[objs[i].tree].entries
				e := es[r.n(len(es))]
				if e.oid >= 0 {
					args = append(args, "#"+strconv.Itoa(i)+":"+string(e.name))
					roots = append(roots, e.oid)
				} else {
					args = append(args, "#"+strconv.Itoa(i))
					roots = append(roots, i)
				}
			case form == 5 && objs[i].kind == 'c' && len(objs[i].parents) > 0: // X~1
				args = append(args, "#"+strconv.Itoa(i)+"~1")
				roots = append(roots, objs[i].parents[0])
			case form == 6 && objs[i].kind == 'g': // tag^{} peels to the first non-tag
				t := i
				for objs[t].kind == 'g' {
					t = objs[t].ref
				}
				args = append(args, "#"+strconv.Itoa(i)+"^{}")
				roots = append(roots, t)
			case form == 7 && objs[i].kind == 'c' && objs[i].pad >= 0 && commitReachableFromRefs(objs, refs, i): // :/text
				args = append(args, fmt.Sprintf(":/commit-%d-end", i))
				roots = append(roots, i)
			default:
				args = append(args, "#"+strconv.Itoa(i))
				roots = append(roots, i)
			}
		}
		if rule == "all" {
			rule = "none" // ROOTs without reference options: only the ROOTs
		}
	}
	for _, rf := range refs {
		kv := strings.SplitN(rf, "=", 2)
		if refSelected(kv[0], rule) {
			idx, _ := refIdx(kv[1])
			roots = append(roots, idx)
		}
	}
	return
}

func commitReachableFromRefs(objs []gObj, refs []string, c int) bool {
	seen := map[int]bool{}
	var walk func(i int)
	walk = func(i int) {
		if seen[i] {
			return
		}
		seen[i] = true
		switch objs[i].kind {
		case 'c':
			for _, p := range objs[i].parents {
				walk(p)
			}
		case 'g':
			walk(objs[i].ref)
		}
	}
	for _, rf := range refs {
		kv := strings.SplitN(rf, "=", 2)
		idx, _ := refIdx(kv[1])
		walk(idx)
	}
	return seen[c]
}

func substArgs(args []string, rr *realRepo) []string {
	var out []string
	for _, a := range args {
		if strings.HasPrefix(a, "#") {
			// #<index>[%<abbrev>][suffix]
			j := 1
			for j < len(a) && a[j] >= '0' && a[j] <= '9' {
				j++
			}
			i, _ := strconv.Atoi(a[1:j])
			oid := rr.oids[i]
			rest := a[j:]
			if strings.HasPrefix(rest, "%") {
				k := 1
				for k < len(rest) && rest[k] >= '0' && rest[k] <= '9' {
					k++
				}
				n, _ := strconv.Atoi(rest[1:k])
				oid = oid[:n]
				rest = rest[k:]
			}
			out = append(out, oid+rest)
		} else {
			out = append(out, rr.longTail(a))
		}
	}
	return out
}

func encArgs(args []string) string {
	var hs []string
	for _, a := range args {
		hs = append(hs, hxs(a))
	}
	return joinOrDash(hs, ",")
}

func decArgs(s string) []string {
	var out []string
	for _, h := range splitOrNil(s, ",") {
		out = append(out, string(unhx(h)))
	}
	return out
}

func intsJoin(xs []int) string {
	if len(xs) == 0 {
		return "-"
	}
	var s []string
	for _, x := range xs {
		s = append(s, strconv.Itoa(x))
	}
	return strings.Join(s, ".")
}

func timesJoin(xs []int64) string {
	var s []string
	for _, x := range xs {
		s = append(s, strconv.FormatInt(x, 10))
	}
	return strings.Join(s, ".")
}

func timesSplit(s string) []int64 {
	var r []int64
	for _, x := range strings.Split(s, ".") {
		v, _ := strconv.ParseInt(x, 10, 64)
		r = append(r, v)
	}
	return r
}

// fix up non-blob sizes with the real serialisations
func realSizes(objs []gObj, times []int64) []gObj {
	oids := make([]string, len(objs))
	for i := range objs {
		data := realData(objs, oids, i, times)
		h := sha1.New()
		fmt.Fprintf(h, "%s %d\x00", kindName[objs[i].kind], len(data))
		h.Write(data)
		oids[i] = hex.EncodeToString(h.Sum(nil))
		objs[i].size = uint64(len(data))
	}
	return objs
}

func hasDuplicateObjects(objs []gObj, times []int64) bool {
	oids := make([]string, len(objs))
	seen := map[string]bool{}
	for i := range objs {
		data := realData(objs, oids, i, times)
		h := sha1.New()
		fmt.Fprintf(h, "%s %d\x00", kindName[objs[i].kind], len(data))
		h.Write(data)
		oids[i] = hex.EncodeToString(h.Sum(nil))
		if seen[oids[i]] {
			return true
		}
		seen[oids[i]] = true
	}
	return false
}

// witnessCheck resolves every cited description with the real git and maps oids to indices:
// per slot "idx:resolves" ('-' = not cited; resolves: 1 yes, 0 no, n = no description)
func witnessCheck(rr *realRepo, wits []string) string {
	var parts []string
	for _, w := range wits {
		if w == "" {
			parts = append(parts, "-")
			continue
		}
		oid := w
		desc := ""
		if i := strings.Index(w, " ("); i == 40 && strings.HasSuffix(w, ")") {
			oid = w[:40]
			desc = w[42 : len(w)-1]
		}
		idx := rr.indexOf(oid)
		res := "n"
		if desc != "" {
			o, _, code := runCmd(rr.dir, gitEnv("GIT_DIR="+rr.dir), nil, "git", "rev-parse", "--verify", "--end-of-options", desc)
			if code == 0 && strings.TrimSpace(string(o)) == oid {
				res = "1"
			} else {
				res = "0:" + hxs(desc)
			}
		}
		parts = append(parts, fmt.Sprintf("%d:%s", idx, res))
	}
	return strings.Join(parts, ",")
}

func revListSet(rr *realRepo, roots []int) string {
	if len(roots) == 0 {
		return "-"
	}
	var in bytes.Buffer
	for _, i := range roots {
		in.WriteString(rr.oids[i] + "\n")
	}
	o, _, code := runCmd(rr.dir, gitEnv("GIT_DIR="+rr.dir), in.Bytes(), "git", "--no-replace-objects", "rev-list", "--objects", "--stdin", "--date-order")
	if code != 0 {
		return "error"
	}
	var idx []int
	for _, line := range strings.Split(string(o), "\n") {
		if len(line) >= 40 {
			idx = append(idx, rr.indexOf(line[:40]))
		}
	}
	// also report whether commits were listed children-first (revlist_topo)
	pos := map[int]int{}
	for p, i := range idx {
		pos[i] = p
	}
	topo := "1"
	for _, i := range idx {
		if i >= 0 && rr.objs[i].kind == 'c' {
			for _, p := range rr.objs[i].parents {
				if pp, ok := pos[p]; ok && pp < pos[i] {
					topo = "0"
				}
			}
		}
	}
	// the listing is reported in git's order: the judge checks the contract itself (Scan.listingb)
	return intsJoin(idx) + ";" + topo
}

func init() {
	register(&engine{
		name: "e2e",
		gen: func(r *rng, i int, tier string) []string {
			var objs []gObj
			var times []int64
			for try := 0; try < 5; try++ {
				objs, times = genE2ERepo(r, tier)
				if !hasDuplicateObjects(objs, times) {
					break
				}
			}
			if i%160 == 77 {
				objs, times = wideFanRepo(r) // once per 160 cases: it costs seconds, not milliseconds
			}
			if i%160 == 99 {
				objs, times = longPathRepo(r)
			}
			objs = realSizes(objs, times)
			refs := genE2ERefs(r, objs)
			layout := []string{"loose", "loose", "packed", "gc", "bitmap", "bitmap", "alternates", "promisor"}[r.n(8)]
			if cs := indicesOf(objs, 'c'); layout == "bitmap" && len(cs) > 0 && r.coin(2, 3) {
				// make sure the bitmap layout has something to show: a commit on top of an existing one, named by a
				// branch and by a lightweight tag (so that every reference rule but "only ROOTs" walks it); its parent
				// goes into the bitmapped pack, the new commit stays outside
				c := cs[r.n(len(cs))]
				objs = append(objs, gObj{kind: 'c', tree: objs[c].tree, parents: []int{c}, pad: r.n(30)})
				times = append(times, times[c]+int64(1+r.n(1000)))
				if !hasDuplicateObjects(objs, times) {
					objs = realSizes(objs, times)
					refs = append(refs, fmt.Sprintf("refs/heads/zz-newest=%d", len(objs)-1), fmt.Sprintf("refs/tags/zz-newest=%d", len(objs)-1))
					sort.Strings(refs)
				} else {
					objs, times = objs[:len(objs)-1], times[:len(times)-1]
				}
			}
			args, roots := genSelection(r, objs, refs)
			style := []string{"full", "full", "hash", "none"}[r.n(4)]
			if i%160 == 99 {
				// the long-path repository: one branch, all references walked, loose objects (a listing taken from a
				// bitmap prints no paths at all)
				refs = []string{fmt.Sprintf("refs/heads/main=%d", len(objs)-1)}
				args, roots = nil, []int{len(objs) - 1}
				layout = "loose"
			}
			if r.coin(1, 40) {
				// a ROOT that is not ONE revision although it expands to one line: `X^@` of a commit with exactly one
				// parent, `X^!` of a root commit. The run must fail; if it is accepted, its descriptions are built from
				// a name git cannot resolve (seeded changes C08m / C10m resolved all ROOTs with one `rev-parse`)
				for _, c := range indicesOf(objs, 'c') {
					if len(objs[c].parents) == 1 {
						args = append(args, "#"+strconv.Itoa(c)+"^@")
						layout += "!badroot"
						break
					}
					if len(objs[c].parents) == 0 {
						args = append(args, "#"+strconv.Itoa(c)+"^!")
						layout += "!badroot"
						break
					}
				}
			}
			return []string{encRepo(objs), timesJoin(times), joinOrDash(refs, ","), encArgs(args), intsJoin(roots), style, layout}
		},
		exec: func(in []string) []string {
			objs := decRepo(in[0])
			times := timesSplit(in[1])
			refs := splitOrNil(in[2], ",")
			args := decArgs(in[3])
			in = append([]string{}, in...)
			in[6] = strings.TrimSuffix(in[6], "!badroot")
			var roots []int
			for _, s := range splitOrNil(in[4], ".") {
				x, _ := strconv.Atoi(s)
				roots = append(roots, x)
			}
			if hasDuplicateObjects(objs, times) {
				return []string{"dup"}
			}
			rr, err := buildRepo(objs, times, refs)
			if err != nil {
				return []string{"setup-failed", hxs(err.Error())}
			}
			defer rr.cleanup()
			env := gitEnv()
			switch in[6] {
			case "packed":
				runCmd(rr.dir, env, nil, "git", "--git-dir", rr.dir, "repack", "-adq")
			case "gc":
				runCmd(rr.dir, env, nil, "git", "--git-dir", rr.dir, "-c", "gc.pruneExpire=never", "gc", "-q")
			case "bitmap":
				// a pack with a reachability bitmap that holds everything BELOW the walked root commits (their
				// parents' closures); the root commits themselves "arrived since" and are loose. A listing taken from
				// the bitmap ignores --date-order and prints the newer commits LAST, after their parents (seeded
				// change C03m: `--use-bitmap-index`)
				var below []string
				for _, rt := range roots {
					if rt < len(objs) && objs[rt].kind == 'c' {
						for _, p := range objs[rt].parents {
							below = append(below, rr.oids[p])
						}
					}
				}
				pr := filepath.Join(rr.dir, "packed-refs")
				full, err1 := os.ReadFile(pr)
				head, err2 := os.ReadFile(filepath.Join(rr.dir, "HEAD"))
				if len(below) > 0 && err1 == nil && err2 == nil {
					var b strings.Builder
					b.WriteString("# pack-refs with: peeled fully-peeled sorted \n")
					for k, o := range below {
						fmt.Fprintf(&b, "%s refs/heads/tmp%03d\n", o, k)
					}
					os.WriteFile(pr, []byte(b.String()), 0o644)
					os.WriteFile(filepath.Join(rr.dir, "HEAD"), []byte("ref: refs/heads/none\n"), 0o644)
					os.Rename(filepath.Join(rr.dir, "refs"), filepath.Join(rr.dir, "refs.full"))
					os.MkdirAll(filepath.Join(rr.dir, "refs", "heads"), 0o755)
					runCmd(rr.dir, env, nil, "git", "--git-dir", rr.dir, "repack", "-adbq")
					os.RemoveAll(filepath.Join(rr.dir, "refs"))
					os.Rename(filepath.Join(rr.dir, "refs.full"), filepath.Join(rr.dir, "refs"))
					os.WriteFile(pr, full, 0o644)
					os.WriteFile(filepath.Join(rr.dir, "HEAD"), head, 0o644)
				}
			case "alternates":
				// every object is borrowed from another object directory (objects/info/alternates)
				alt := filepath.Join(filepath.Dir(rr.dir), "alt-objects")
				if os.MkdirAll(alt, 0o755) == nil {
					ds, _ := filepath.Glob(filepath.Join(rr.dir, "objects", "[0-9a-f][0-9a-f]"))
					for _, d := range ds {
						os.Rename(d, filepath.Join(alt, filepath.Base(d)))
					}
					os.MkdirAll(filepath.Join(rr.dir, "objects", "info"), 0o755)
					os.WriteFile(filepath.Join(rr.dir, "objects", "info", "alternates"), []byte(alt+"\n"), 0o644)
				}
			case "promisor":
				// the layout of a partial clone in which nothing is missing: every object sits in a pack
				// marked `.promisor` (seeded change C09n listed objects with --exclude-promisor-objects)
				runCmd(rr.dir, env, nil, "git", "--git-dir", rr.dir, "repack", "-adq")
				if packs, _ := filepath.Glob(filepath.Join(rr.dir, "objects", "pack", "*.pack")); len(packs) > 0 {
					for _, pk := range packs {
						os.WriteFile(strings.TrimSuffix(pk, ".pack")+".promisor", nil, 0o644)
					}
					for _, kv := range [][2]string{{"core.repositoryformatversion", "1"}, {"extensions.partialClone", "origin"},
						{"remote.origin.url", "/nonexistent/origin.git"}, {"remote.origin.promisor", "true"}, {"remote.origin.partialclonefilter", "blob:limit=1g"}} {
						runCmd(rr.dir, env, nil, "git", "--git-dir", rr.dir, "config", kv[0], kv[1])
					}
				}
			}
			sargs := append([]string{"--json", "--json-version=1", "--no-progress", "--names=" + in[5]}, substArgs(args, rr)...)
			run := runSizer(rr.dir, env, sargs...)
			if run.code != 0 || run.nums == "" {
				return []string{"fail", strconv.Itoa(run.code), hx(run.stderr), hx(run.stdout)}
			}
			return []string{"ok", run.nums, witnessCheck(rr, run.wits), run.groups, revListSet(rr, roots), boolStr(len(run.stderr) == 0)}
		},
		class: func(in, res []string) string {
			sel := "all-refs"
			if strings.Contains(in[3], "23") { // '#'
				sel = "roots"
			} else if in[3] != "-" {
				sel = "options"
			}
			return res[0] + "/" + in[5] + "/" + in[6] + "/" + sel
		},
	})
}
